#!/bin/bash
# usage: tools/mkmut.sh <name> <property> <python-edit-script>   (edit script runs with cwd = scratch worktree)
set -eu
export GOFLAGS=-mod=mod GOPROXY=off GOSUMDB=off GOTOOLCHAIN=local
NAME=$1; PROP=$2; SCRIPT=$3
WT=$(mktemp -d /tmp/mk.XXXXXX); rmdir $WT
git -C /repo worktree add -q --detach $WT HEAD
trap "git -C /repo worktree remove --force $WT" EXIT
(cd $WT && python3 "$SCRIPT" && gofmt -l openapi3 openapi3filter openapi3gen routers && go build ./... && go test -vet=off -count=1 ./... 2>&1 | grep -E "^--- FAIL" | grep -v "TestIssue495WithDraft04\|TestExtraSiblingsInRemoteRef" | head -5; git diff > /tmp/mk.patch)
mkdir -p /verif/mutants/$NAME; cp /tmp/mk.patch /verif/mutants/$NAME/patch.diff
echo "{\"property\":\"$PROP\"}" > /verif/mutants/$NAME/meta.json
echo "made $NAME ($(wc -l < /verif/mutants/$NAME/patch.diff) diff lines)"
