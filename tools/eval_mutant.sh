#!/bin/bash
# usage: tools/eval_mutant.sh <mutant-dir> <demo-pkg-dir|-> <prop> [prop...]
# Verifies a seeded change in a scratch worktree (outside /repo and /verif) and runs the given checks against it.
set -u
export GOFLAGS=-mod=mod GOPROXY=off GOSUMDB=off GOTOOLCHAIN=local
VERIF=$(cd "$(dirname "$0")/.." && pwd)
M=$(realpath "$1"); PKG=$2; shift 2
WT=$(mktemp -d /tmp/mv.XXXXXX); rmdir "$WT"
git -C /repo worktree add -q --detach "$WT" HEAD || exit 2
cleanup() { git -C /repo worktree remove --force "$WT" 2>/dev/null; rm -rf "$WT"; }
trap cleanup EXIT
cd "$WT"
DEMO=$(ls "$M"/*_test.go 2>/dev/null | head -1)
if [ -n "$DEMO" ] && [ "$PKG" != "-" ]; then
  cp "$DEMO" "$PKG/zz_demo_test.go"
  NAME=$(grep -o 'func Test[A-Za-z0-9_]*' "$PKG/zz_demo_test.go" | sed 's/func //' | paste -sd'|')
  echo "--- demo WITHOUT patch ($NAME):"; go test -vet=off -count=1 -run "^($NAME)\$" ${RACE:-} ./$PKG/ 2>&1 | tail -3
fi
git apply "$M/patch.diff" || { echo "PATCH DOES NOT APPLY"; exit 2; }
echo "--- build:"; go build ./... && echo ok
if [ -n "$DEMO" ] && [ "$PKG" != "-" ]; then
  echo "--- demo WITH patch:"; go test -vet=off -count=1 -run "^($NAME)\$" ${RACE:-} ./$PKG/ 2>&1 | tail -3
  rm -f "$PKG/zz_demo_test.go"
fi
echo "--- test suite with patch (expect only the 2 network tests to fail):"
go test -vet=off -count=1 ./... 2>&1 | grep -E "^(--- FAIL|FAIL|ok)" | grep -v "^ok" | sort | uniq -c
cd "$VERIF"
for P in "$@"; do
  echo "--- check $P quick against the mutant:"
  VERIF_REPO="$WT" ./bin/check $P quick 2>&1 | grep -E "^(VIOLATION|KNOWN|violation|check:|infrastructure|harness|C[0-9]+ quick)" | cut -c1-330 | head -12
  echo "exit=${PIPESTATUS[0]}"
done
