#!/bin/bash
# Sensitivity self-test: every change under /verif/seeded (status "caught…") and /verif/mutants is applied
# to a scratch worktree of /repo HEAD and the quick tier of the check that should catch it is run against it.
# Prints one line per change; exits 1 if a change expected to be caught is missed.
export GOFLAGS=-mod=mod GOPROXY=off GOSUMDB=off GOTOOLCHAIN=local
cd "$(dirname "$0")/.."; HERE=$(pwd)
MISS=0
for D in seeded/* mutants/*; do
  [ -f "$D/patch.diff" ] || continue
  PROP=$(python3 -c "import json,sys; m=json.load(open('$D/meta.json')); print(m.get('check') or m['property'])")
  EXPECT=$(python3 -c "import json; m=json.load(open('$D/meta.json')); s=m.get('status','caught'); print('caught' if s.startswith('caught') else 'missed')")
  case "$D" in seeded/C02-header-wholefile-wrong-base) PROP=C11;; esac
  WT=$(mktemp -d /tmp/sm.XXXXXX); rmdir "$WT"
  git -C /repo worktree add -q --detach "$WT" HEAD || { echo "$D: worktree failed"; continue; }
  if ! git -C "$WT" apply "$PWD/$D/patch.diff" 2>/dev/null; then
    echo "$D: patch no longer applies (skipped)"; git -C /repo worktree remove --force "$WT"; continue
  fi
  OUT=$(VERIF_REPO="$WT" ./bin/check $PROP quick 2>&1); RC=$?
  SIGS=$(echo "$OUT" | grep -o '^violation \[[^]]*\]' | sed 's/violation //' | sort -u | head -3 | tr '\n' ' ')
  git -C /repo worktree remove --force "$WT"
  if [ $RC -eq 1 ]; then R=caught; elif [ $RC -eq 0 ]; then R=missed; else R="infra($RC)"; fi
  echo "$D: check=$PROP expected=$EXPECT result=$R $SIGS"
  if [ "$EXPECT" = caught ] && [ "$R" != caught ]; then MISS=$((MISS+1)); fi
done
rm -f "$HERE"/replays/*.json
echo "missed-but-expected: $MISS"
[ $MISS -eq 0 ]
