// Command simbin executes run specs of the simulators against the
// (instrumented copy of the) library it was built with.
package main

import (
	"bufio"
	"encoding/json"
	"flag"
	"fmt"
	"hash/fnv"
	"io"
	"log"
	"os"
	"sort"
	"time"

	"verif/simfw"
	_ "verif/sims/conc"
	_ "verif/sims/loader"
	_ "verif/sims/mw"
	_ "verif/sims/stream"
)

type violationRec struct {
	Type       string            `json:"type"`
	Index      uint64            `json:"index"`
	Seed       uint64            `json:"seed"`
	Spec       json.RawMessage   `json:"spec"`
	Violations []simfw.Violation `json:"violations"`
	Respec     json.RawMessage   `json:"respec,omitempty"`
}

type summaryRec struct {
	Type       string            `json:"type"`
	Runs       int               `json:"runs"`
	Steps      int               `json:"steps"`
	Nontrivial int               `json:"nontrivial"`
	Inconcl    int               `json:"inconclusive"`
	InconclWhy map[string]int    `json:"inconclusive_why,omitempty"`
	Probes     map[string]int    `json:"probes"`
	Faults     map[string]int    `json:"faults"`
	Classes    []uint64          `json:"classes"`
	Cover      []uint64          `json:"cover,omitempty"`
	Samples    []json.RawMessage `json:"samples"`
	WallS      float64           `json:"wall_s"`
	LogHashes  []string          `json:"log_hashes,omitempty"`
}

func hash64(s string) uint64 { h := fnv.New64a(); h.Write([]byte(s)); return h.Sum64() }

func main() {
	log.SetOutput(io.Discard) // the library's default LogFunc writes here
	log.SetFlags(0)
	if len(os.Args) < 2 {
		fmt.Fprintln(os.Stderr, "usage: simbin batch|run|gen ...")
		os.Exit(2)
	}
	cmd := os.Args[1]
	fs := flag.NewFlagSet(cmd, flag.ExitOnError)
	simName := fs.String("sim", "", "simulator")
	prop := fs.String("prop", "", "property id")
	seed := fs.Uint64("seed", 1, "batch seed")
	start := fs.Uint64("start", 0, "first run index")
	n := fs.Uint64("n", 1, "number of runs")
	stride := fs.Uint64("stride", 1, "index stride")
	tier := fs.String("tier", "quick", "tier")
	out := fs.String("out", "", "batch output (JSONL)")
	curFile := fs.String("cur", "", "write the spec being executed here first (for runs that kill the process)")
	specFile := fs.String("spec", "", "run spec file")
	events := fs.Bool("events", false, "include the event log")
	hashes := fs.Bool("hashes", false, "batch: record the event-log hash of every run (determinism self-test)")
	budget := fs.Duration("budget", 0, "batch: stop generating new runs after this wall time")
	fs.Parse(os.Args[2:])
	sim := simfw.Lookup(*simName)
	if sim == nil {
		fmt.Fprintf(os.Stderr, "unknown simulator %q (have %v)\n", *simName, simfw.Names())
		os.Exit(2)
	}
	switch cmd {
	case "describe":
		real, stub := sim.Components()
		b, _ := json.Marshal(map[string]any{"Real": real, "Stub": stub, "Assumptions": sim.Assumptions()})
		fmt.Println(string(b))
	case "gen":
		spec := sim.Gen(simfw.Derive(*seed, *start), *prop, *tier)
		b, _ := json.MarshalIndent(spec, "", " ")
		fmt.Println(string(b))
	case "run":
		raw, err := os.ReadFile(*specFile)
		if err != nil {
			fmt.Fprintln(os.Stderr, err)
			os.Exit(2)
		}
		// accept either a bare spec or a replay file {spec: ...}
		var wrap struct {
			Spec json.RawMessage `json:"spec"`
			Sim  string          `json:"sim"`
		}
		if json.Unmarshal(raw, &wrap) == nil && len(wrap.Spec) > 0 && wrap.Sim != "" {
			raw = wrap.Spec
		}
		res := sim.Run(raw, *prop, *events)
		b, _ := json.Marshal(res)
		if *out != "" {
			// (the result goes to a file when asked: the library under test may print to stdout)
			if err := os.WriteFile(*out, b, 0o644); err != nil {
				fmt.Fprintln(os.Stderr, err)
				os.Exit(2)
			}
		} else {
			fmt.Println(string(b))
		}
	case "batch":
		t0 := time.Now()
		w := bufio.NewWriter(os.Stdout)
		if *out != "" {
			f, err := os.Create(*out)
			if err != nil {
				fmt.Fprintln(os.Stderr, err)
				os.Exit(2)
			}
			defer f.Close()
			w = bufio.NewWriter(f)
		}
		sum := summaryRec{Type: "summary", Probes: map[string]int{}, Faults: map[string]int{}, InconclWhy: map[string]int{}}
		classes := map[uint64]struct{}{}
		cover := map[uint64]struct{}{}
		for k := uint64(0); k < *n; k++ {
			if *budget > 0 && time.Since(t0) > *budget {
				break
			}
			idx := *start + k**stride
			rs := simfw.Derive(*seed, idx)
			t := *tier
			if k == 0 {
				t += "/first" // simulators may generate a process-cold run for the first run of a process
			}
			spec := sim.Gen(rs, *prop, t)
			raw, _ := json.Marshal(spec)
			if *curFile != "" {
				rec, _ := json.Marshal(violationRec{Type: "current", Index: idx, Seed: rs, Spec: raw})
				os.WriteFile(*curFile, rec, 0o644)
			}
			res := sim.Run(raw, *prop, false)
			sum.Runs++
			sum.Steps += res.Steps
			if res.Inconcl != "" {
				sum.Inconcl++
				sum.InconclWhy[simfw.Trunc(res.Inconcl, 80)]++
			}
			if res.Nontrivial {
				sum.Nontrivial++
				classes[hash64(res.Class)] = struct{}{}
			}
			for p, c := range res.Probes {
				sum.Probes[p] += c
			}
			for _, c := range res.Cover {
				cover[c] = struct{}{}
			}
			for p, c := range res.Faults {
				sum.Faults[p] += c
			}
			if *hashes {
				sum.LogHashes = append(sum.LogHashes, res.LogHash)
			}
			if len(sum.Samples) < 2 {
				sum.Samples = append(sum.Samples, raw)
			}
			var mine []simfw.Violation
			for _, v := range res.Violations {
				if *prop == "" || v.Property == *prop {
					mine = append(mine, v)
				}
			}
			if len(mine) > 0 {
				b, _ := json.Marshal(violationRec{Type: "violation", Index: idx, Seed: rs, Spec: raw, Violations: mine, Respec: res.Respec})
				w.Write(b)
				w.WriteByte('\n')
			}
		}
		for c := range classes {
			sum.Classes = append(sum.Classes, c)
		}
		sort.Slice(sum.Classes, func(i, j int) bool { return sum.Classes[i] < sum.Classes[j] })
		for c := range cover {
			sum.Cover = append(sum.Cover, c)
		}
		sort.Slice(sum.Cover, func(i, j int) bool { return sum.Cover[i] < sum.Cover[j] })
		sum.WallS = time.Since(t0).Seconds()
		b, _ := json.Marshal(sum)
		w.Write(b)
		w.WriteByte('\n')
		w.Flush()
	default:
		fmt.Fprintln(os.Stderr, "unknown command", cmd)
		os.Exit(2)
	}
}
