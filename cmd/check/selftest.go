package main

import (
	"fmt"
	"os"
	"os/exec"
	"path/filepath"
	"reflect"
	"sort"
)

// selftestDeterminism executes, for every simulator, the same 200 run seeds in
// nine separate processes (3 executions x GOMAXPROCS 1, 4, 16) and requires the
// event-log hash of every run to be identical everywhere (DESIGN.md §5).
func selftestDeterminism(args []string) int {
	type sp struct {
		sim, prop string
		race      bool
	}
	var sims []sp
	seen := map[string]bool{}
	ids := make([]string, 0, len(props))
	for id := range props {
		ids = append(ids, id)
	}
	sort.Strings(ids)
	for _, id := range ids {
		c := props[id]
		if len(args) > 0 {
			ok := false
			for _, a := range args {
				if a == c.Sim || a == id {
					ok = true
				}
			}
			if !ok {
				continue
			}
		}
		key := c.Sim + "/" + id
		if seen[key] {
			continue
		}
		seen[key] = true
		sims = append(sims, sp{c.Sim, id, c.Race})
	}
	scr := scratch()
	defer os.RemoveAll(scr)
	bins := map[bool]string{}
	bad := 0
	for _, s := range sims {
		if _, ok := bins[s.race]; !ok {
			b, err := buildSim(scr, s.race)
			if err != nil {
				fmt.Fprintln(os.Stderr, err)
				return 2
			}
			bins[s.race] = b
		}
		n := "200"
		reps := 3
		if s.race {
			n = "80"
			reps = 5
		}
		if v := os.Getenv("SELFTEST_SEEDS"); v != "" {
			n = v
		}
		var ref []string
		k := 0
		for _, procs := range []string{"1", "4", "16"} {
			for rep := 0; rep < reps; rep++ {
				out := filepath.Join(scr, fmt.Sprintf("det.%s.%s.%d.jsonl", s.prop, procs, rep))
				cmd := exec.Command(bins[s.race], "batch", "-sim", s.sim, "-prop", s.prop, "-seed", "77", "-n", n, "-hashes", "-out", out)
				cmd.Env = append(os.Environ(), "GOMAXPROCS="+procs)
				cmd.Env = append(cmd.Env, raceEnv(scr)...)
				if o, err := cmd.CombinedOutput(); err != nil {
					fmt.Fprintf(os.Stderr, "selftest %s: process failed: %v\n%s\n", s.prop, err, o)
					return 2
				}
				sums, _ := parseOut(out)
				if len(sums) != 1 {
					fmt.Fprintf(os.Stderr, "selftest %s: no summary\n", s.prop)
					return 2
				}
				if ref == nil {
					ref = sums[0].LogHashes
				} else if !reflect.DeepEqual(ref, sums[0].LogHashes) {
					diff := 0
					for i := range ref {
						if i < len(sums[0].LogHashes) && ref[i] != sums[0].LogHashes[i] {
							if diff == 0 {
								fmt.Printf("selftest %s/%s: run %d differs at GOMAXPROCS=%s rep %d\n", s.sim, s.prop, i, procs, rep)
							}
							diff++
						}
					}
					fmt.Printf("selftest %s/%s: %d of %d runs diverged\n", s.sim, s.prop, diff, len(ref))
					bad++
				}
				k++
			}
		}
		fmt.Printf("selftest-determinism %s/%s: %s seeds x %d processes (GOMAXPROCS 1/4/16): event logs identical=%v\n", s.sim, s.prop, n, k, bad == 0)
	}
	if bad > 0 {
		return 2
	}
	return 0
}
