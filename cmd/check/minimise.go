package main

import (
	"encoding/json"
	"sort"
	"strings"
	"sync"
	"time"
)

// minimise shrinks a run spec while the same violation signature persists.
// It is a greedy delta-debugging pass over the explicit JSON structure of the
// spec (drop array elements in chunks and singly; clear booleans, numbers and
// strings; drop object fields), each candidate executed in a fresh process.
// Simulators interpret every structurally valid spec totally, so any candidate
// is a legal run.
func minimise(bin, sim, prop, sig string, spec []byte, dir string) ([]byte, int) {
	var tree any
	if err := json.Unmarshal(spec, &tree); err != nil {
		return spec, 0
	}
	tries := 1
	if strings.Contains(sig, "/race:") {
		tries = 3 // a race report may be absent from a single execution (random eviction in the detector's shadow memory)
	}
	test := func(t any) bool {
		b, _ := json.Marshal(t)
		for k := 0; k < tries; k++ {
			r, stderr, err := runSpec(bin, sim, prop, b, dir, false)
			if err != nil {
				if v, ok := classifyCrash(prop, stderr); ok && v.Sig == sig {
					return true
				}
				continue
			}
			if hasSig(r, prop, sig) {
				return true
			}
		}
		return false
	}
	tried := 0
	deadline := time.Now().Add(90 * time.Second)
	const par = 16
	for pass := 0; pass < 12 && time.Now().Before(deadline); pass++ {
		progress := false
		cands := candidates(tree)
		for i := 0; i < len(cands) && time.Now().Before(deadline); {
			// evaluate a window in parallel, accept the first success in order
			end := i + par
			if end > len(cands) {
				end = len(cands)
			}
			ok := make([]bool, end-i)
			trees := make([]any, end-i)
			var wg sync.WaitGroup
			for k := i; k < end; k++ {
				wg.Add(1)
				go func(k int) {
					defer wg.Done()
					t := clone(tree)
					if !cands[k].apply(t) {
						return
					}
					trees[k-i] = t
					ok[k-i] = test(t)
				}(k)
			}
			wg.Wait()
			tried += end - i
			accepted := false
			for k := range ok {
				if ok[k] {
					tree = trees[k]
					accepted = true
					progress = true
					break
				}
			}
			if accepted {
				cands = candidates(tree)
				// restart at the same relative position: earlier candidates were rejected on a superset
				if i >= len(cands) {
					break
				}
				continue
			}
			i = end
		}
		if !progress {
			break
		}
	}
	b, _ := json.Marshal(tree)
	return b, tried
}

type cand struct {
	path []any // keys (string) and indices (int)
	op   string
	a, b int
}

func clone(t any) any {
	switch v := t.(type) {
	case map[string]any:
		m := make(map[string]any, len(v))
		for k, x := range v {
			m[k] = clone(x)
		}
		return m
	case []any:
		s := make([]any, len(v))
		for i, x := range v {
			s[i] = clone(x)
		}
		return s
	default:
		return v
	}
}

func get(t any, path []any) (parent any, last any, ok bool) {
	cur := t
	for i, p := range path {
		if i == len(path)-1 {
			return cur, p, true
		}
		switch k := p.(type) {
		case string:
			m, ok := cur.(map[string]any)
			if !ok {
				return nil, nil, false
			}
			cur = m[k]
		case int:
			s, ok := cur.([]any)
			if !ok || k >= len(s) {
				return nil, nil, false
			}
			cur = s[k]
		}
	}
	return nil, nil, false
}

func setAt(parent any, key any, val any) bool {
	switch k := key.(type) {
	case string:
		m, ok := parent.(map[string]any)
		if !ok {
			return false
		}
		m[k] = val
		return true
	case int:
		s, ok := parent.([]any)
		if !ok || k >= len(s) {
			return false
		}
		s[k] = val
		return true
	}
	return false
}

func valAt(parent any, key any) (any, bool) {
	switch k := key.(type) {
	case string:
		m, ok := parent.(map[string]any)
		if !ok {
			return nil, false
		}
		v, ok := m[k]
		return v, ok
	case int:
		s, ok := parent.([]any)
		if !ok || k >= len(s) {
			return nil, false
		}
		return s[k], true
	}
	return nil, false
}

func (c cand) apply(root any) bool {
	parent, key, ok := get(root, c.path)
	if !ok {
		return false
	}
	v, ok := valAt(parent, key)
	if !ok {
		return false
	}
	switch c.op {
	case "cut": // remove elements [a,b) of an array
		s, ok := v.([]any)
		if !ok || c.b > len(s) || c.a >= c.b {
			return false
		}
		ns := append(append([]any{}, s[:c.a]...), s[c.b:]...)
		return setAt(parent, key, ns)
	case "del":
		m, ok := parent.(map[string]any)
		if !ok {
			return false
		}
		delete(m, key.(string))
		return true
	case "false":
		return setAt(parent, key, false)
	case "zero":
		return setAt(parent, key, float64(0))
	case "half":
		f, ok := v.(float64)
		if !ok {
			return false
		}
		return setAt(parent, key, float64(int64(f/2)))
	case "one":
		return setAt(parent, key, float64(1))
	case "empty":
		return setAt(parent, key, "")
	case "shorter":
		s, ok := v.(string)
		if !ok || len(s) < 2 {
			return false
		}
		return setAt(parent, key, s[:len(s)/2])
	}
	return false
}

// candidates lists shrink steps in a deterministic order: big structural cuts
// first, then single elements, then scalars.
func candidates(root any) []cand {
	var big, single, scalars []cand
	var walk func(t any, path []any)
	walk = func(t any, path []any) {
		switch v := t.(type) {
		case map[string]any:
			keys := make([]string, 0, len(v))
			for k := range v {
				keys = append(keys, k)
			}
			sort.Strings(keys)
			for _, k := range keys {
				p := append(append([]any{}, path...), k)
				switch x := v[k].(type) {
				case bool:
					if x {
						scalars = append(scalars, cand{path: p, op: "false"})
					}
				case float64:
					if x != 0 {
						scalars = append(scalars, cand{path: p, op: "zero"})
						if x > 3 || x < -3 {
							scalars = append(scalars, cand{path: p, op: "half"})
						}
						if x != 1 {
							scalars = append(scalars, cand{path: p, op: "one"})
						}
					}
				case string:
					if x != "" {
						scalars = append(scalars, cand{path: p, op: "empty"})
						if len(x) > 8 {
							scalars = append(scalars, cand{path: p, op: "shorter"})
						}
					}
				case map[string]any:
					if len(x) > 0 {
						single = append(single, cand{path: p, op: "del"})
					}
				}
				walk(v[k], p)
			}
		case []any:
			n := len(v)
			if len(path) > 0 {
				if n > 1 {
					big = append(big, cand{path: path, op: "cut", a: 0, b: n})
					big = append(big, cand{path: path, op: "cut", a: 0, b: n / 2})
					big = append(big, cand{path: path, op: "cut", a: n / 2, b: n})
				}
				for i := n - 1; i >= 0; i-- {
					single = append(single, cand{path: path, op: "cut", a: i, b: i + 1})
				}
			}
			for i, x := range v {
				p := append(append([]any{}, path...), i)
				switch y := x.(type) {
				case float64:
					if y != 0 {
						scalars = append(scalars, cand{path: p, op: "zero"})
					}
				case string:
					if y != "" && len(y) > 8 {
						scalars = append(scalars, cand{path: p, op: "shorter"})
					}
				}
				walk(x, p)
			}
		}
	}
	walk(root, nil)
	return append(append(big, single...), scalars...)
}
