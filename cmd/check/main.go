// Command check is the driver (DESIGN.md §2.6): it copies /repo's working tree
// to a scratch directory, instruments the copy, builds the simulator binary
// against it, fans runs out over worker processes, confirms and minimises
// violations in fresh processes, and writes the evidence file.
//
// Exit codes: 0 property held on everything explored; 1 violation (after a
// line "VIOLATION property=<id> replay=<path>"); 2 infrastructure trouble
// (never a verdict).
package main

import (
	"encoding/json"
	"fmt"
	"os"
	"os/exec"
	"path/filepath"
	"runtime"
	"sort"
	"strconv"
	"strings"
	"sync"
	"sync/atomic"
	"time"
)

var (
	verifDir string
	repoDir  = "/repo"
)

type tierCfg struct {
	Runs    uint64        // total runs over all workers
	Workers int           //
	Budget  time.Duration // per-worker wall budget (a cap, not a target)
	Seeds   int           // number of batch seeds (thorough explores several)
}

type propCfg struct {
	Sim       string
	Race      bool
	Quick     tierCfg
	Thorough  tierCfg
	Rule      string
	DesignRef string
	Reach     []string // reach probes and fault kinds that must have been hit at least once
}

var props = map[string]propCfg{
	"C14": {Sim: "mw", Quick: tierCfg{Runs: 24000, Workers: 16, Budget: 180 * time.Second, Seeds: 1},
		Thorough:  tierCfg{Runs: 400000, Workers: 16, Budget: 9 * time.Minute, Seeds: 5},
		Rule:      "one run = one middleware instance (Validator strict/non-strict with default or custom ErrFunc/LogFunc, or ValidationHandler.ServeHTTP/Middleware) over a seeded document-family member and a history of 1-4 requests (routable or not, valid or invalid by construction, body delivered by a chunk plan with optional mid-body fault) each answered by a scripted handler (call-sequence shape drawn from: silent, status-only, write-only, pieces, multi-status, write-then-status, informational-first, flush variants) observed by a net/http-faithful client writer with optional write fault. A run is non-trivial when it has at least one request; distinct = distinct (mode, ErrFunc, document member, router, history length, handler-shape sequence, auth behaviour, multi-error) tuples.",
		DesignRef: "§3 SIM-MW",
		Reach:     []string{"expect-404", "expect-400", "expect-pass", "strict-500", "strict-pass", "pass-through", "fault-seen-by-validator", "shape-silent", "shape-status-only", "shape-write-only", "shape-write-then-status", "shape-multi-status", "shape-status-pieces", "shape-informational-first", "shape-flush-first", "shape-status-write-flush", "handler_abort", "client_write_err", "reqbody_eio", "reqbody_reset", "reqbody_unexpected_eof"}},
	"C15": {Sim: "conc", Race: true, Quick: tierCfg{Runs: 9600, Workers: 16, Budget: 300 * time.Second, Seeds: 1},
		Thorough:  tierCfg{Runs: 120000, Workers: 16, Budget: 18 * time.Minute, Seeds: 5},
		Rule:      "one run = 2-6 caller goroutines with 1-4 library calls each (FindRoute on both routers, ValidateRequest over JSON/form/multipart/text bodies with defaults on/off, multi-error, custom regex compilers, reading auth callbacks; ValidateResponse; Schema.VisitJSON/IsMatching in every mode; strict and non-strict middleware ServeHTTP; openapi3gen.NewSchemaRefForValue on compiled-in and per-run reflect.StructOf types) sharing one loaded+validated document (patterns carry the run marker: cold caches), both routers and two middleware instances, executed in a -race build under the zzsimrt scheduler with a seeded policy (serial, uniform-random switch probability 1/3..1/1000, biased towards sites touching shared state, PCT depth 1-3, round-robin quantum 1..1000) and sorted or seeded-permuted map iteration. Oracles: A no race report with a kin-openapi frame in both stacks / no runtime fatal; B every call's verdict (accepted / rejected by which part; for accepted calls also the forwarded request, value or body the caller gets back) equals the same call alone on a fresh document; C no deadlock on library locks, all calls return within the step cap; D the shared document serialises identically before and after. Non-trivial = at least one context switch happened inside library code; distinct = distinct (caller op-kind multiset, hash of the switch sequence projected to (from-site, to-site)) pairs; distinct_cover_items = distinct (site where one caller was stopped, site where the next one resumed) pairs over all context switches inside library code.",
		DesignRef: "§3 SIM-CONC",
		Reach:     []string{"accepted-vreq-GET", "accepted-vreq-PUT", "accepted-vreq-POST", "rejected-vreq-GET", "accepted-vresp", "accepted-visit", "accepted-find", "accepted-mw", "accepted-gen", "accepted-load", "switch-inside-library", "calls-overlapped", "lock-contention", "map-order-permuted", "patterns-cold-at-start", "first-use-in-process", "callback-crash-inside-call", "policy-random", "policy-biased", "policy-pct", "policy-rr", "policy-serial"}},
	"C11": {Sim: "loader", Quick: tierCfg{Runs: 40000, Workers: 16, Budget: 180 * time.Second, Seeds: 1},
		Thorough:  tierCfg{Runs: 700000, Workers: 16, Budget: 9 * time.Minute, Seeds: 5},
		Rule:      "one run = one or two loads (fresh or reused Loader) of a generated multi-file layout in the simulated storage: root at one of {in-memory data, io.Reader, data+absolute path, data+http URL, relative file, absolute file, file:// URL, http, https}, 0-5 further documents (whole OpenAPI documents, bare single elements of each of the ten kinds, free-form JSON with fragments) in nested directories and on a second host, references of all ten resolver kinds planted at visited and unvisited positions in whole-file, fragment and missing-fragment form with chains/diamonds/cycles, canary references (parent escapes, absolute paths, http(s) and scheme-relative URLs), both switch settings, custom ReadFromURIFunc or the default reader (simulated os.ReadFile + RoundTripper), read faults. Invariant at every read event: switch off => the root location only (none at all for in-memory roots); switch on => location in the justified set J, and (custom reader) some already-delivered document refers to it. Non-trivial = the layout holds at least one reference; distinct = distinct (root form, reader, switch, reuse, file kinds, number of reads, faults) tuples.",
		DesignRef: "§3 SIM-LOADER",
		Reach:     []string{"read-root", "read-nonroot", "reached-whole", "reached-free", "reached-single:schema", "reached-single:parameter", "reached-single:header", "reached-single:requestBody", "reached-single:response", "reached-single:example", "reached-single:callback", "reached-single:link", "reached-single:pathItem", "reached-single:securityScheme", "load-ok", "load-err", "unreadable-target", "enoent", "eio", "torn", "http5xx", "http_reset", "changed"}},
	"C02": {Sim: "loader", Quick: tierCfg{Runs: 40000, Workers: 16, Budget: 180 * time.Second, Seeds: 1},
		Thorough:  tierCfg{Runs: 700000, Workers: 16, Budget: 9 * time.Minute, Seeds: 5},
		Rule:      "same runs as C11. Clause (i): a location whose read failed (missing, enoent, eio, http 5xx, connection reset) and never succeeded in that load => the load returns an error. Clause (ii): a fragment reference planted in the root at a resolved position whose existing target lacks the fragment => the load returns an error. Clause (iii): every load terminates within a read budget (64+16*(1+references)*(1+files) reads) and an instrumentation-step budget, including on cyclic multi-file layouts and under faults. The main clause (resolved object == designated object) is a pure function of the file tree and is NOT decided.",
		DesignRef: "§3 SIM-LOADER, §4 C02",
		Reach:     []string{"unreadable-target", "load-ok", "load-err", "enoent", "eio", "torn", "http5xx", "http_reset", "changed"}},
	"C13": {Sim: "stream", Quick: tierCfg{Runs: 48000, Workers: 16, Budget: 180 * time.Second, Seeds: 1},
		Thorough:  tierCfg{Runs: 800000, Workers: 16, Budget: 9 * time.Minute, Seeds: 5},
		Rule:      "one run = one request handed through the parties client stream -> authentication callbacks -> validation (1 or 2 validations with seeded options) -> next handler, over a seeded document (security requirement shapes at operation/document level; defaulted query/header/cookie parameters incl. arrays with explode true/false/unset; JSON body with defaults at top level, nested, in array items, inside allOf/oneOf/anyOf, object- and array-valued; form, multipart, text, undeclared bodies) with a seeded chunk plan, GetBody nil/ok/err, ContentLength exact/-1, Body nil/NoBody/empty, optional mid-body fault followed by a fault-free request on the same document. Oracles R1 (forwarded body readable in full; ContentLength/GetBody consistent), R2 (defaults exactly once against the ApplyDefaults reference model and the declared serialisation; byte identity when defaults are skipped; forwarded request validates again unchanged). Distinct = distinct (security shapes, parameter set, body kind/mode, GetBody, ContentLength, chunk-plan length, fault, options, callback behaviours) tuples.",
		DesignRef: "§3 SIM-STREAM",
		Reach:     []string{"body-parties-1", "body-parties-2", "auth-read-all", "auth-read-part", "body-defaults-applied", "default-query", "default-header", "default-cookie", "skip-identity", "idempotence-checked", "second-validation", "req-in-flight", "getbody-checked", "fault-run", "reqbody_eio", "reqbody_reset", "reqbody_unexpected_eof"}},
	"C07": {Sim: "stream", Quick: tierCfg{Runs: 48000, Workers: 16, Budget: 180 * time.Second, Seeds: 1},
		Thorough:  tierCfg{Runs: 800000, Workers: 16, Budget: 9 * time.Minute, Seeds: 5},
		Rule:      "same runs as C13 biased to documents with security requirements; oracle R3: verdict and failing-part set of validation #1 equal those of a neutral run (same bytes as one in-memory chunk, non-reading callback with the same outcomes) whatever the chunk plan, GetBody/ContentLength variant and the callbacks' reading behaviour (none / part / all / close / body-dependent signature check); callbacks asked only about (scheme, scopes) pairs of the requirement list in effect and always finding the full body; a stream error observed by the library is never followed by acceptance where the operation declares a body, it is validated and the request has no working GetBody to go back to; after such an error a callback never finds a proper prefix of the body ending in a clean EOF; in multi-error mode the failing parts are the union of what fails under an all-accepting callback and the security part. Clause-scoped: the security/parameter truth table itself is not decided.",
		DesignRef: "§3 SIM-STREAM, §4 C07",
		Reach:     []string{"security-model-true", "security-model-false", "auth-read-all", "auth-read-part", "body-parties-2", "fault-run", "reqbody_eio"}},
	"C08": {Sim: "stream", Quick: tierCfg{Runs: 48000, Workers: 16, Budget: 180 * time.Second, Seeds: 1},
		Thorough:  tierCfg{Runs: 800000, Workers: 16, Budget: 9 * time.Minute, Seeds: 5},
		Rule:      "one run = ValidateResponse over a response-body stream (seeded chunk plan, optional mid-body fault followed by a fault-free response) for a seeded response map (exact / class / default entries, with or without content, schema, required header), status (incl. 204/301/304/307/308), method (POST/HEAD), headers and body, options (multi-error, exclude body, strict status). Oracles: afterwards input.Body is non-nil and yields the original bytes to EOF on every return path; the verdict equals that over the same bytes in memory; a stream error observed by the library is never followed by acceptance where the verdict depends on the body (the same validation over the intact bytes reads them, or rejects them). Clause-scoped: selection of the entry and schema checks are not decided. Distinct = distinct (entry count, status, method, chunk-plan length, fault, options) tuples.",
		DesignRef: "§3 SIM-STREAM, §4 C08",
		Reach:     []string{"resp-body-consumed", "resp-early-return", "resp-readable-checked", "resp-history", "respbody_eio", "respbody_reset", "respbody_unexpected_eof"}},
}

func main() {
	wd, err := os.Getwd()
	if err != nil {
		die(2, err.Error())
	}
	verifDir = wd
	if _, err := os.Stat(filepath.Join(verifDir, "MANIFEST.json")); err != nil {
		// allow running from elsewhere: locate via executable
		exe, _ := os.Executable()
		verifDir = filepath.Dir(filepath.Dir(exe))
	}
	if r := os.Getenv("VERIF_REPO"); r != "" {
		repoDir = r
	}
	setEnv()
	if len(os.Args) < 2 {
		usage()
	}
	switch os.Args[1] {
	case "warm":
		warm()
	case "build":
		if len(os.Args) < 3 {
			usage()
		}
		race := len(os.Args) > 3 && os.Args[3] == "race"
		bin, err := buildSim(os.Args[2], race)
		if err != nil {
			die(2, err.Error())
		}
		fmt.Println(bin)
	case "replay":
		if len(os.Args) < 3 {
			usage()
		}
		os.Exit(replay(os.Args[2]))
	case "selftest-determinism":
		os.Exit(selftestDeterminism(os.Args[2:]))
	default:
		id := os.Args[1]
		tier := "quick"
		if len(os.Args) > 2 {
			tier = os.Args[2]
		}
		if t := os.Getenv("VERIF_TIER"); t != "" && len(os.Args) <= 2 {
			tier = t
		}
		cfg, ok := props[id]
		if !ok {
			die(2, "unknown property "+id)
		}
		os.Exit(runCheck(id, tier, cfg))
	}
}

func usage() {
	fmt.Fprintln(os.Stderr, "usage: check <ID> quick|thorough | replay <file> | selftest-determinism [sim...] | warm | build <dir> [race]")
	os.Exit(2)
}

func die(code int, msg string) {
	fmt.Fprintln(os.Stderr, "check:", msg)
	os.Exit(code)
}

func setEnv() {
	os.Setenv("GOFLAGS", "-mod=mod")
	os.Setenv("GOPROXY", "off")
	os.Setenv("GOSUMDB", "off")
	os.Setenv("GOTOOLCHAIN", "local")
}

func run(dir string, name string, args ...string) (string, error) {
	cmd := exec.Command(name, args...)
	cmd.Dir = dir
	out, err := cmd.CombinedOutput()
	if err != nil {
		return string(out), fmt.Errorf("%s %s: %v\n%s", name, strings.Join(args, " "), err, out)
	}
	return string(out), nil
}

// buildSim makes the instrumented scratch copy in scr and builds simbin.
func buildSim(scr string, race bool) (string, error) {
	if err := os.MkdirAll(scr, 0o755); err != nil {
		return "", err
	}
	instr := filepath.Join(verifDir, "bin", "instrument")
	if _, err := os.Stat(instr); err != nil {
		if _, err := run(filepath.Join(verifDir, "instr"), "go", "build", "-trimpath", "-o", instr, "."); err != nil {
			return "", err
		}
	}
	copyDir := filepath.Join(scr, "repo")
	if _, err := os.Stat(filepath.Join(copyDir, "zzsimrt")); err != nil {
		if _, err := run("", "rsync", "-a", "--delete", "--exclude", ".git", repoDir+"/", copyDir+"/"); err != nil {
			return "", err
		}
		if out, err := run("", instr, fmt.Sprintf("-race=%v", race), "-dir", copyDir, "-simrt", filepath.Join(verifDir, "simrt"), "-sites", filepath.Join(scr, "sites.json")); err != nil {
			return "", fmt.Errorf("instrumenter failed: %v\n%s", err, out)
		}
	}
	gomod := fmt.Sprintf("module verif\n\ngo 1.22.5\n\nrequire github.com/getkin/kin-openapi v0.0.0\n\nreplace github.com/getkin/kin-openapi => %s\n", copyDir)
	if err := os.WriteFile(filepath.Join(scr, "go.mod"), []byte(gomod), 0o644); err != nil {
		return "", err
	}
	sum, err := os.ReadFile(filepath.Join(copyDir, "go.sum"))
	if err != nil {
		return "", err
	}
	if err := os.WriteFile(filepath.Join(scr, "go.sum"), sum, 0o644); err != nil {
		return "", err
	}
	bin := filepath.Join(scr, "simbin")
	args := []string{"build", "-modfile=" + filepath.Join(scr, "go.mod"), "-trimpath"}
	if race {
		bin += "-race"
		args = append(args, "-race")
	}
	args = append(args, "-o", bin, "./cmd/simbin")
	if out, err := run(verifDir, "go", args...); err != nil {
		return "", fmt.Errorf("build failed: %v\n%s", err, out)
	}
	return bin, nil
}

func scratch() string {
	d, err := os.MkdirTemp("", "verif-scr-")
	if err != nil {
		die(2, err.Error())
	}
	return d
}

func warm() {
	scr := scratch()
	defer os.RemoveAll(scr)
	if _, err := buildSim(scr, false); err != nil {
		die(2, err.Error())
	}
	if _, err := buildSim(scr, true); err != nil {
		die(2, err.Error())
	}
	fmt.Println("warm ok")
}

// ---- batch records (mirrors cmd/simbin) ------------------------------------

type violation struct {
	Property string `json:"property"`
	Oracle   string `json:"oracle"`
	Sig      string `json:"sig"`
	Detail   string `json:"detail"`
}

type violationRec struct {
	Type       string          `json:"type"`
	Index      uint64          `json:"index"`
	Seed       uint64          `json:"seed"`
	Spec       json.RawMessage `json:"spec"`
	Violations []violation     `json:"violations"`
	BatchSeed  uint64          `json:"batch_seed,omitempty"`
	Respec     json.RawMessage `json:"respec,omitempty"`
}

type summaryRec struct {
	Type       string            `json:"type"`
	Runs       int               `json:"runs"`
	Steps      int               `json:"steps"`
	Nontrivial int               `json:"nontrivial"`
	Inconcl    int               `json:"inconclusive"`
	InconclWhy map[string]int    `json:"inconclusive_why"`
	Probes     map[string]int    `json:"probes"`
	Faults     map[string]int    `json:"faults"`
	Classes    []uint64          `json:"classes"`
	Cover      []uint64          `json:"cover"`
	Samples    []json.RawMessage `json:"samples"`
	WallS      float64           `json:"wall_s"`
	LogHashes  []string          `json:"log_hashes"`
}

type result struct {
	Violations []violation     `json:"violations"`
	Inconcl    string          `json:"inconclusive"`
	LogHash    string          `json:"log_hash"`
	Steps      int             `json:"steps"`
	Events     json.RawMessage `json:"events"`
}

type knownFile struct {
	Known []struct {
		Property string `json:"property"`
		Sig      string `json:"sig"` // exact, or prefix when it ends in '*'
		What     string `json:"what"`
	} `json:"known"`
	Fixed []struct {
		Property string `json:"property"`
		Commit   string `json:"commit"`
		What     string `json:"what"`
	} `json:"fixed"`
}

func loadKnown() knownFile {
	var k knownFile
	b, err := os.ReadFile(filepath.Join(verifDir, "known_findings.json"))
	if err == nil {
		if err := json.Unmarshal(b, &k); err != nil {
			die(2, "known_findings.json: "+err.Error())
		}
	}
	return k
}

func (k knownFile) match(v violation) (string, bool) {
	for _, e := range k.Known {
		if e.Property != v.Property {
			continue
		}
		if e.Sig == v.Sig || (strings.HasSuffix(e.Sig, "*") && strings.HasPrefix(v.Sig, strings.TrimSuffix(e.Sig, "*"))) {
			return e.What, true
		}
	}
	return "", false
}

// runSpec executes one spec in a fresh process.
func runSpec(bin, sim, prop string, spec []byte, dir string, events bool) (result, string, error) {
	f, err := os.CreateTemp(dir, "spec-*.json")
	if err != nil {
		return result{}, "", err
	}
	f.Write(spec)
	f.Close()
	defer os.Remove(f.Name())
	resFile := f.Name() + ".result"
	defer os.Remove(resFile)
	args := []string{"run", "-sim", sim, "-prop", prop, "-spec", f.Name(), "-out", resFile}
	if events {
		args = append(args, "-events")
	}
	cmd := exec.Command(bin, args...)
	cmd.Env = append(os.Environ(), raceEnv(dir)...)
	var stderr strings.Builder
	cmd.Stderr = &stderr
	done := make(chan struct{})
	var out []byte
	go func() { out, err = cmd.Output(); close(done) }()
	select {
	case <-done:
	case <-time.After(120 * time.Second):
		cmd.Process.Kill()
		<-done
		return result{}, stderr.String(), fmt.Errorf("run timed out")
	}
	var r result
	if b, rerr := os.ReadFile(resFile); rerr == nil {
		out = b
	}
	if jerr := json.Unmarshal(lastLine(out), &r); jerr != nil {
		return r, stderr.String(), fmt.Errorf("simbin run: %v (%v) stderr: %s", jerr, err, stderr.String())
	}
	return r, stderr.String(), nil
}

var raceSeq int64

// raceEnv routes race-detector reports of a child process to a file the child
// itself inspects after every run (the process keeps running: a report becomes
// an ordinary violation of the run that produced it).
func raceEnv(dir string) []string {
	n := atomic.AddInt64(&raceSeq, 1)
	base := filepath.Join(dir, fmt.Sprintf("race.%d", n))
	return []string{"GORACE=halt_on_error=0 exitcode=0 history_size=4 log_path=" + base, "ZZSIM_RACE_LOG=" + base}
}

func lastLine(b []byte) []byte {
	s := strings.TrimRight(string(b), "\n")
	if i := strings.LastIndexByte(s, '\n'); i >= 0 {
		s = s[i+1:]
	}
	return []byte(s)
}

func hasSig(r result, prop, sig string) bool {
	for _, v := range r.Violations {
		if v.Property == prop && v.Sig == sig {
			return true
		}
	}
	return false
}

type evidence struct {
	PropertyID  string         `json:"property_id"`
	Tier        string         `json:"tier"`
	Seed        int64          `json:"seed"`
	Level       string         `json:"level"`
	Coverage    map[string]any `json:"coverage"`
	Assumptions []string       `json:"assumptions"`
	WallS       float64        `json:"wall_s"`
	Violations  int            `json:"violations"`
}

func seedFromEnv(def uint64) uint64 {
	if s := os.Getenv("VERIF_SEED"); s != "" {
		if v, err := strconv.ParseInt(s, 10, 64); err == nil {
			return uint64(v)
		}
		if v, err := strconv.ParseUint(s, 10, 64); err == nil {
			return v
		}
	}
	return def
}

func runCheck(id, tier string, cfg propCfg) int {
	t0 := time.Now()
	tc := cfg.Quick
	if tier == "thorough" {
		tc = cfg.Thorough
	} else {
		tier = "quick"
	}
	base := seedFromEnv(20261001)
	fmt.Printf("check %s tier=%s sim=%s VERIF_SEED=%d\n", id, tier, cfg.Sim, base)
	scr := scratch()
	defer os.RemoveAll(scr)
	bin, err := buildSim(scr, cfg.Race)
	if err != nil {
		fmt.Fprintln(os.Stderr, err)
		return 2
	}
	buildS := time.Since(t0).Seconds()
	fmt.Printf("built %s in %.1fs\n", filepath.Base(bin), buildS)

	workers := tc.Workers
	if n := runtime.NumCPU(); workers > n {
		workers = n
	}
	if workers < 1 {
		workers = 1
	}
	var (
		mu     sync.Mutex
		sums   []summaryRec
		viols  []violationRec
		infra  []string
		seeds  []uint64
		simWal float64
	)
	for si := 0; si < tc.Seeds; si++ {
		bs := base + uint64(si)*1000003
		seeds = append(seeds, bs)
		perWorker := tc.Runs / uint64(tc.Seeds) / uint64(workers)
		if perWorker == 0 {
			perWorker = 1
		}
		var wg sync.WaitGroup
		for w := 0; w < workers; w++ {
			wg.Add(1)
			go func(w int) {
				defer wg.Done()
				out := filepath.Join(scr, fmt.Sprintf("out.%d.%d.jsonl", si, w))
				cur := filepath.Join(scr, fmt.Sprintf("cur.%d.%d.json", si, w))
				s, v, inf := runWorker(bin, cfg, id, tier, bs, uint64(w), perWorker, uint64(workers), tc.Budget/time.Duration(tc.Seeds), out, cur, scr)
				mu.Lock()
				sums = append(sums, s...)
				for i := range v {
					v[i].BatchSeed = bs
				}
				viols = append(viols, v...)
				infra = append(infra, inf...)
				mu.Unlock()
			}(w)
		}
		wg.Wait()
	}
	if len(infra) > 0 {
		for _, m := range infra {
			fmt.Fprintln(os.Stderr, "infrastructure:", m)
		}
		return 2
	}
	// aggregate
	agg := summaryRec{Probes: map[string]int{}, Faults: map[string]int{}, InconclWhy: map[string]int{}}
	classes := map[uint64]struct{}{}
	cover := map[uint64]struct{}{}
	for _, s := range sums {
		for _, c := range s.Cover {
			cover[c] = struct{}{}
		}
		agg.Runs += s.Runs
		agg.Steps += s.Steps
		agg.Nontrivial += s.Nontrivial
		agg.Inconcl += s.Inconcl
		for k, v := range s.InconclWhy {
			agg.InconclWhy[k] += v
		}
		for k, v := range s.Probes {
			agg.Probes[k] += v
		}
		for k, v := range s.Faults {
			agg.Faults[k] += v
		}
		for _, c := range s.Classes {
			classes[c] = struct{}{}
		}
		if len(agg.Samples) < 3 && len(s.Samples) > 0 {
			agg.Samples = append(agg.Samples, s.Samples[0])
		}
		if s.WallS > simWal {
			simWal = s.WallS
		}
	}
	if agg.Runs == 0 {
		fmt.Fprintln(os.Stderr, "no runs executed")
		return 2
	}
	for why := range agg.InconclWhy {
		if strings.HasPrefix(why, "harness") {
			fmt.Fprintf(os.Stderr, "harness trouble (not a verdict): %s\n", why)
			return 2
		}
	}
	if agg.Inconcl*20 > agg.Runs {
		fmt.Fprintf(os.Stderr, "too many inconclusive runs: %d of %d: %v\n", agg.Inconcl, agg.Runs, agg.InconclWhy)
		return 2
	}

	// violations: group by signature, confirm, minimise
	known := loadKnown()
	sort.Slice(viols, func(i, j int) bool {
		if viols[i].BatchSeed != viols[j].BatchSeed {
			return viols[i].BatchSeed < viols[j].BatchSeed
		}
		return viols[i].Index < viols[j].Index
	})
	bySig := map[string][]violationRec{}
	var sigOrder []string
	for _, v := range viols {
		for _, x := range v.Violations {
			if _, ok := bySig[x.Sig]; !ok {
				sigOrder = append(sigOrder, x.Sig)
			}
			bySig[x.Sig] = append(bySig[x.Sig], v)
		}
	}
	reported := 0
	knownHit := map[string]int{}
	var violLines []string
	for _, sig := range sigOrder {
		recs := bySig[sig]
		var v0 violation
		for _, x := range recs[0].Violations {
			if x.Sig == sig {
				v0 = x
			}
		}
		if what, ok := known.match(v0); ok {
			knownHit[sig] = len(recs)
			fmt.Printf("KNOWN-FINDING: property=%s %s [%s] (%d runs)\n", id, what, sig, len(recs))
			continue
		}
		if reported >= 6 {
			reported++
			continue
		}
		// confirm in a fresh process (try up to 3 records of this signature)
		confirmed := -1
		// (a run that ends the process - deadlock, runtime fatal - reproduces when it dies the same way)
		same := func(spec []byte, events bool) (bool, result) {
			r, stderr, err := runSpec(bin, cfg.Sim, id, spec, scr, events)
			if err != nil {
				v, ok := classifyCrash(id, stderr)
				return ok && v.Sig == sig, r
			}
			return hasSig(r, id, sig), r
		}
		for k := 0; k < len(recs) && k < 8; k++ {
			if ok, _ := same(recs[k].Spec, false); ok {
				confirmed = k
				break
			}
		}
		if confirmed < 0 {
			fmt.Fprintf(os.Stderr, "violation %s did not reproduce in a fresh process (batch-dependent?): reporting the original spec unminimised\n", sig)
			confirmed = 0
		}
		rec := recs[confirmed]
		if len(rec.Respec) > 0 {
			if ok, _ := same(rec.Respec, false); ok {
				rec.Spec = rec.Respec // the explicit form reproduces: minimise that
			}
		}
		min, tried := minimise(bin, cfg.Sim, id, sig, rec.Spec, scr)
		// the replay must reproduce three times
		stable := true
		var last result
		for k := 0; k < 3; k++ {
			ok, r := same(min, true)
			if !ok {
				stable = false
			}
			last = r
		}
		if !stable {
			min = rec.Spec
		}
		detail := v0.Detail
		for _, x := range last.Violations {
			if x.Sig == sig {
				detail = x.Detail
			}
		}
		rp := filepath.Join(verifDir, "replays", fmt.Sprintf("%s-%d-%d-%s.json", id, rec.BatchSeed, rec.Index, sigSlug(sig)))
		os.MkdirAll(filepath.Dir(rp), 0o755)
		rf := map[string]any{
			"property": id, "sim": cfg.Sim, "batch_seed": rec.BatchSeed, "run_index": rec.Index, "run_seed": rec.Seed,
			"sig": sig, "oracle": v0.Oracle, "detail": detail, "spec": json.RawMessage(min),
			"original_spec_bytes": len(rec.Spec), "minimised_spec_bytes": len(min), "minimiser_candidates": tried,
			"reproduced_3_of_3": stable, "events": last.Events, "runs_with_this_signature": len(recs),
		}
		b, _ := json.MarshalIndent(rf, "", " ")
		os.WriteFile(rp, b, 0o644)
		fmt.Printf("violation [%s] %s\n", sig, detail)
		violLines = append(violLines, fmt.Sprintf("VIOLATION property=%s replay=%s", id, rp))
		reported++
	}
	for _, l := range violLines {
		fmt.Println(l)
	}

	wall := time.Since(t0).Seconds()
	simS := wall - buildS
	if simS <= 0 {
		simS = 0.001
	}
	cov := map[string]any{
		"evaluations":          agg.Runs,
		"distinct_nontrivial":  len(classes),
		"rule":                 cfg.Rule,
		"samples":              agg.Samples,
		"simulated_runs":       agg.Runs,
		"runs_per_hour":        int(float64(agg.Runs) / simS * 3600),
		"seeds_per_hour":       int(float64(agg.Runs) / simS * 3600),
		"batch_seeds":          seeds,
		"simulated_time":       fmt.Sprintf("%d events (the library has no clock: simulated time is the global event/step counter)", agg.Steps),
		"simulated_events":     agg.Steps,
		"faults_fired":         agg.Faults,
		"reach_probes":         agg.Probes,
		"distinct_measure":     "distinct run classes (see rule), counted over all workers",
		"inconclusive_runs":    agg.Inconcl,
		"distinct_cover_items": len(cover),
		"known_findings_met":   knownHit,
		"build_s":              buildS,
		"workers":              workers,
		"design_ref":           cfg.DesignRef,
	}
	var stuck []string
	for _, p := range cfg.Reach {
		if agg.Probes[p] == 0 && agg.Faults[p] == 0 {
			stuck = append(stuck, p)
		}
	}
	cov["reach_required"] = cfg.Reach
	cov["reach_stuck_at_zero"] = stuck
	if len(stuck) > 0 {
		fmt.Printf("self-assessment: reach probes stuck at zero: %v (the workload or fault mix does not reach them in this run)\n", stuck)
	}
	real, stub, assume := describe(bin, cfg.Sim)
	cov["components_real"] = real
	cov["components_stub"] = stub
	ev := evidence{PropertyID: id, Tier: tier, Seed: int64(base), Level: "exploration", Coverage: cov, Assumptions: assume, WallS: wall, Violations: reported}
	b, _ := json.MarshalIndent(ev, "", " ")
	evDir := filepath.Join(verifDir, "evidence")
	if os.Getenv("VERIF_REPO") != "" {
		// a run against some other tree (sensitivity tests) must not overwrite the evidence of /repo
		evDir = filepath.Join(verifDir, "evidence", "other-tree")
	}
	os.MkdirAll(evDir, 0o755)
	os.WriteFile(filepath.Join(evDir, id+"."+tier+".json"), b, 0o644) // per-tier copy, kept alongside the latest
	if err := os.WriteFile(filepath.Join(evDir, id+".json"), b, 0o644); err != nil {
		fmt.Fprintln(os.Stderr, err)
		return 2
	}
	fmt.Printf("%s %s: %d runs, %d distinct classes, %d events, faults %v, %d violation signature(s), %.1fs\n", id, tier, agg.Runs, len(classes), agg.Steps, agg.Faults, reported, wall)
	if reported > 0 {
		return 1
	}
	return 0
}

func sigSlug(sig string) string {
	var b []byte
	for i := 0; i < len(sig); i++ {
		c := sig[i]
		switch {
		case c >= 'a' && c <= 'z', c >= 'A' && c <= 'Z', c >= '0' && c <= '9', c == '-':
			b = append(b, c)
		default:
			b = append(b, '_')
		}
	}
	if len(b) > 60 {
		b = b[:60]
	}
	return string(b)
}

func describe(bin, sim string) (real, stub, assume []string) {
	out, err := exec.Command(bin, "describe", "-sim", sim).Output()
	if err != nil {
		return nil, nil, nil
	}
	var d struct {
		Real, Stub, Assumptions []string
	}
	json.Unmarshal(out, &d)
	return d.Real, d.Stub, d.Assumptions
}

// runWorker runs one worker's share; if the process dies mid-batch (race
// report, fatal error) the run being executed is taken from the cur file and
// the batch is resumed after it.
func runWorker(bin string, cfg propCfg, id, tier string, seed, w, n, stride uint64, budget time.Duration, out, cur, scr string) (sums []summaryRec, viols []violationRec, infra []string) {
	start := w
	remaining := n
	deadline := time.Now().Add(budget + 30*time.Second)
	crashes := 0
	for remaining > 0 {
		left := time.Until(deadline) - 30*time.Second
		if left <= 0 {
			break
		}
		os.Remove(cur)
		args := []string{"batch", "-sim", cfg.Sim, "-prop", id, "-seed", fmt.Sprint(seed), "-start", fmt.Sprint(start), "-n", fmt.Sprint(remaining),
			"-stride", fmt.Sprint(stride), "-tier", tier, "-out", out, "-cur", cur, "-budget", left.String()}
		cmd := exec.Command(bin, args...)
		cmd.Env = append(os.Environ(), raceEnv(scr)...)
		var stderr strings.Builder
		cmd.Stderr = &stderr
		done := make(chan error, 1)
		go func() { done <- cmd.Run() }()
		var err error
		select {
		case err = <-done:
		case <-time.After(left + 60*time.Second):
			cmd.Process.Kill()
			<-done
			infra = append(infra, fmt.Sprintf("worker %d: watchdog: no completion within budget; stderr: %s", w, tail(stderr.String(), 2000)))
			return
		}
		s, v := parseOut(out)
		if err == nil {
			sums = append(sums, s...)
			viols = append(viols, v...)
			return
		}
		// the process died: find the run it was executing
		crashes++
		viols = append(viols, v...)
		var c violationRec
		b, rerr := os.ReadFile(cur)
		if rerr != nil || json.Unmarshal(b, &c) != nil {
			infra = append(infra, fmt.Sprintf("worker %d died (%v) before its first run; stderr: %s", w, err, tail(stderr.String(), 3000)))
			return
		}
		vv, ok := classifyCrash(id, stderr.String())
		if !ok {
			infra = append(infra, fmt.Sprintf("worker %d died (%v) at run %d with no classifiable report; stderr: %s", w, err, c.Index, tail(stderr.String(), 3000)))
			return
		}
		if vv.Sig != "" {
			c.Type = "violation"
			c.Violations = []violation{vv}
			viols = append(viols, c)
		}
		// resume after the fatal run
		doneRuns := (c.Index-start)/stride + 1
		part := summaryRec{Runs: int(doneRuns), Probes: map[string]int{}, Faults: map[string]int{}, InconclWhy: map[string]int{}}
		if vv.Sig == "" {
			part.Inconcl = 1
			part.InconclWhy["the run ended the process without a verdict (undecidable: see stderr of the worker)"] = 1
		}
		sums = append(sums, part)
		if doneRuns >= remaining || crashes > 20 {
			return
		}
		remaining -= doneRuns
		start = c.Index + stride
	}
	return
}

func tail(s string, n int) string {
	if len(s) > n {
		return "…" + s[len(s)-n:]
	}
	return s
}

func parseOut(path string) (sums []summaryRec, viols []violationRec) {
	b, err := os.ReadFile(path)
	if err != nil {
		return
	}
	for _, line := range strings.Split(string(b), "\n") {
		if strings.TrimSpace(line) == "" {
			continue
		}
		var t struct {
			Type string `json:"type"`
		}
		if json.Unmarshal([]byte(line), &t) != nil {
			continue
		}
		switch t.Type {
		case "summary":
			var s summaryRec
			if json.Unmarshal([]byte(line), &s) == nil {
				sums = append(sums, s)
			}
		case "violation":
			var v violationRec
			if json.Unmarshal([]byte(line), &v) == nil {
				viols = append(viols, v)
			}
		}
	}
	return
}

// classifyCrash turns the stderr of a process that died into a violation, or
// reports that it cannot (infrastructure). Filled in by the simulators that
// can die on a finding (SIM-CONC: race reports, runtime fatals, deadlock).
var classifyCrash = func(id, stderr string) (violation, bool) {
	if (id == "C02" || id == "C11") && strings.Contains(stderr, "goroutine stack exceeds") {
		// the loader recursed until the runtime gave up: for C02 that is the termination clause failing;
		// for C11 the run cannot be judged (empty signature: the batch goes on after it)
		if id == "C11" {
			return violation{}, true
		}
		return violation{Property: id, Oracle: "termination", Sig: id + "/non-termination:stack-overflow", Detail: "loading recursed until the Go runtime aborted the process (goroutine stack exceeds its limit): " + tail(stderr[strings.Index(stderr, "goroutine stack exceeds"):], 600)}, true
	}
	if id != "C15" {
		return violation{}, false
	}
	if strings.Contains(stderr, "ZZSIM-HANG") {
		// a caller blocked for real while holding the turn: that run cannot be decided (empty signature:
		// counted as inconclusive, the batch goes on after it)
		return violation{}, true
	}
	switch {
	case strings.Contains(stderr, "ZZSIM-DEADLOCK"):
		line := stderr[strings.Index(stderr, "ZZSIM-DEADLOCK"):]
		if i := strings.IndexByte(line, '\n'); i >= 0 {
			line = line[:i]
		}
		return violation{Property: id, Oracle: "no-deadlock", Sig: id + "/deadlock", Detail: "every live caller spins on a library lock: " + line}, true
	case strings.Contains(stderr, "fatal error: concurrent map"):
		i := strings.Index(stderr, "fatal error: concurrent map")
		what := stderr[i:]
		if j := strings.IndexByte(what, '\n'); j >= 0 {
			what = what[:j]
		}
		return violation{Property: id, Oracle: "race", Sig: id + "/fatal:" + strings.TrimPrefix(what, "fatal error: "), Detail: tail(stderr[i:], 3000)}, true
	}
	return violation{}, false
}

func replay(path string) int {
	b, err := os.ReadFile(path)
	if err != nil {
		die(2, err.Error())
	}
	var rf struct {
		Property string          `json:"property"`
		Sim      string          `json:"sim"`
		Sig      string          `json:"sig"`
		Spec     json.RawMessage `json:"spec"`
	}
	if err := json.Unmarshal(b, &rf); err != nil || rf.Sim == "" {
		die(2, "not a replay file")
	}
	cfg := props[rf.Property]
	scr := scratch()
	defer os.RemoveAll(scr)
	bin, err := buildSim(scr, cfg.Race)
	if err != nil {
		die(2, err.Error())
	}
	// The schedule and every outcome replay exactly (same event-log hash). A race report, however, comes
	// from the Go race detector, whose shadow memory evicts at random: a report that exists may be absent
	// from a given execution. For race signatures the replay is therefore repeated a few times.
	attempts := 1
	if strings.Contains(rf.Sig, "/race:") {
		attempts = 10
	}
	var r result
	for a := 0; a < attempts; a++ {
		var stderr string
		r, stderr, err = runSpec(bin, rf.Sim, rf.Property, rf.Spec, scr, true)
		if err != nil {
			if v, ok := classifyCrash(rf.Property, stderr); ok {
				r.Violations = append(r.Violations, v)
			} else {
				die(2, err.Error())
			}
		}
		if hasSig(r, rf.Property, rf.Sig) {
			if a > 0 {
				fmt.Printf("(race report reproduced on attempt %d)\n", a+1)
			}
			break
		}
	}
	fmt.Printf("replay %s: log_hash=%s steps=%d\n", path, r.LogHash, r.Steps)
	hit := false
	for _, v := range r.Violations {
		fmt.Printf("  [%s] %s\n", v.Sig, v.Detail)
		if v.Property == rf.Property && (rf.Sig == "" || v.Sig == rf.Sig) {
			hit = true
		}
	}
	if hit {
		fmt.Printf("VIOLATION property=%s replay=%s\n", rf.Property, path)
		return 1
	}
	fmt.Println("not reproduced on this tree")
	return 0
}
