package simenv

import (
	"fmt"
	"io"
	"net/http"

	"verif/simfw"
)

// HOp is one step of a scripted handler.
type HOp struct {
	Op   string `json:"op"` // set | add | del | status | write | flush | read | readall | close | abort
	K    string `json:"k,omitempty"`
	V    string `json:"v,omitempty"`
	Code int    `json:"code,omitempty"`
	Data string `json:"data,omitempty"`
	N    int    `json:"n,omitempty"`
}

// Script is the behaviour of the wrapped handler for one request: any sequence
// of Header/WriteHeader/Write/Flush calls and request-body reads. Scripts never
// branch on the results of their calls, so a script behaves identically behind
// the middleware and when run directly against a client connection.
type Script struct {
	Ops []HOp `json:"ops"`
}

// HandlerAbort is the panic value of a scripted handler crash.
type HandlerAbort struct{}

// HandlerRec is what the harness observes about one handler invocation.
type HandlerRec struct {
	Entered   int
	Returned  int
	EnterSeq  int
	ReturnSeq int
	BodySeen  []byte
	BodyErr   string
	Aborted   bool // the script crashed (panicked) on purpose
	BodyReads int
}

// Serve runs the script. party, when non-nil, is set to "handler" while the
// script reads the request body.
func (s Script) Serve(w http.ResponseWriter, r *http.Request, log *simfw.Log, rec *HandlerRec, party *string) {
	rec.Entered++
	rec.EnterSeq = log.Add("handler", "enter", r.Method+" "+r.URL.Path, "")
	prev := ""
	if party != nil {
		prev = *party
		*party = "handler"
	}
	defer func() {
		if party != nil {
			*party = prev
		}
	}()
	var scratch []byte
	for _, op := range s.Ops {
		switch op.Op {
		case "set":
			w.Header().Set(op.K, op.V)
			log.Add("handler", "Header.Set", op.K+"="+op.V, "")
		case "add":
			w.Header().Add(op.K, op.V)
			log.Add("handler", "Header.Add", op.K+"="+op.V, "")
		case "del":
			w.Header().Del(op.K)
			log.Add("handler", "Header.Del", op.K, "")
		case "status":
			log.Add("handler", "WriteHeader", fmt.Sprint(op.Code), "")
			w.WriteHeader(op.Code)
		case "write":
			log.Add("handler", "Write", simfw.Trunc(op.Data, 40), "")
			// like io.CopyBuffer or bufio: every piece goes through one scratch buffer that the
			// handler refills (ResponseWriter.Write must not retain the slice)
			if cap(scratch) < len(op.Data) {
				scratch = make([]byte, len(op.Data)+64)
			}
			n := copy(scratch[:cap(scratch)], op.Data)
			w.Write(scratch[:n]) // result deliberately ignored
			for i := 0; i < n; i++ {
				scratch[i] = '#'
			}
		case "flush":
			if f, ok := w.(http.Flusher); ok {
				log.Add("handler", "Flush", "", "flusher")
				f.Flush()
			} else {
				log.Add("handler", "Flush", "", "not-a-flusher")
			}
		case "read", "readall":
			if r.Body == nil {
				log.Add("handler", "ReadBody", "", "nil body")
				continue
			}
			limit := 1 << 20
			if op.Op == "read" && op.N > 0 {
				limit = op.N
			}
			buf := make([]byte, 64)
			for len(rec.BodySeen) < limit && rec.BodyReads < 4096 {
				want := len(buf)
				if rem := limit - len(rec.BodySeen); rem < want {
					want = rem
				}
				n, err := r.Body.Read(buf[:want])
				rec.BodyReads++
				rec.BodySeen = append(rec.BodySeen, buf[:n]...)
				if err == io.EOF {
					break
				}
				if err != nil {
					rec.BodyErr = err.Error()
					break
				}
			}
			log.Add("handler", "ReadBody", fmt.Sprint(limit), fmt.Sprintf("seen=%d err=%s", len(rec.BodySeen), rec.BodyErr))
		case "close":
			if r.Body != nil {
				r.Body.Close()
			}
		case "abort":
			// the handler crashes mid-response (net/http would recover it per connection)
			log.Add("handler", "abort", "", "panic")
			if rec != nil {
				rec.Aborted = true
			}
			panic(HandlerAbort{})
		}
	}
	rec.Returned++
	rec.ReturnSeq = log.Add("handler", "return", "", "")
}

// ShapeClass classifies a script by the call pattern C14 quantifies over.
func (s Script) ShapeClass() string {
	var statuses, writes, flushes int
	firstKind := ""
	informationalFirst := false
	writeBeforeStatus := false
	for _, op := range s.Ops {
		switch op.Op {
		case "status":
			if statuses == 0 && writes == 0 && op.Code >= 100 && op.Code < 200 && op.Code != 101 {
				informationalFirst = true
			}
			if firstKind == "" {
				firstKind = "status"
			}
			statuses++
		case "write":
			if firstKind == "" {
				firstKind = "write"
			}
			if statuses == 0 {
				writeBeforeStatus = true
			}
			writes++
		case "flush":
			if firstKind == "" {
				firstKind = "flush"
			}
			flushes++
		}
	}
	for _, op := range s.Ops {
		if op.Op == "abort" {
			return "aborted"
		}
	}
	switch {
	case statuses == 0 && writes == 0 && flushes == 0:
		return "silent"
	case informationalFirst:
		return "informational-first"
	case statuses == 0 && writes > 0:
		if writes > 1 {
			return "write-only-pieces"
		}
		return "write-only"
	case writes == 0 && statuses == 1:
		return "status-only"
	case statuses > 1:
		return "multi-status"
	case writeBeforeStatus:
		return "write-then-status"
	case firstKind == "flush":
		return "flush-first"
	case writes > 1:
		if flushes > 0 {
			return "status-pieces-flush"
		}
		return "status-pieces"
	default:
		if flushes > 0 {
			return "status-write-flush"
		}
		return "status-write"
	}
}
