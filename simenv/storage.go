package simenv

import (
	"errors"
	"fmt"
	"io"
	"io/fs"
	"net/http"
	"net/url"
	"path"
	"strings"
	"sync"

	"verif/simfw"
)

// ReadFault is a fault injected at the storage/network seam.
type ReadFault struct {
	Loc  string `json:"loc"`           // canonical location
	Kind string `json:"kind"`          // enoent | eio | torn | http5xx | http_reset | http_short | changed
	Nth  int    `json:"nth,omitempty"` // which read of Loc is hit (0 = every read)
	Cut  int    `json:"cut,omitempty"` // torn / http_reset: byte offset
}

// ReadEvent is one read the loader issued.
type ReadEvent struct {
	Seq   int
	Loc   string
	Via   string // func | os | http
	OK    bool
	Fault string
}

// Storage is the simulated file system and HTTP servers: one tree
// location -> bytes, exposed as a ReadFromURIFunc-shaped function, as the
// os.ReadFile replacement, and as an http.RoundTripper.
type Storage struct {
	Files  map[string][]byte
	Alt    map[string][]byte // content served from the second read on ("changed")
	Faults []ReadFault
	Log    *simfw.Log
	Events []ReadEvent
	Count  map[string]int
	Budget int // reads after which the load is declared non-terminating
	Fired  map[string]int
	mu     sync.Mutex
}

type BudgetExceeded struct{ Reads int }

func NewStorage(log *simfw.Log) *Storage {
	return &Storage{Files: map[string][]byte{}, Alt: map[string][]byte{}, Log: log, Count: map[string]int{}, Fired: map[string]int{}, Budget: 1 << 20}
}

// Canon is the canonical name of a location: file paths and file:// URLs are
// the cleaned path; http(s) URLs are scheme://host + cleaned path; anything
// else (e.g. scheme-relative) is kept verbatim without fragment.
func Canon(u *url.URL) string {
	if u == nil {
		return ""
	}
	switch {
	case (u.Scheme == "" || u.Scheme == "file") && u.Host == "":
		if u.Path == "" {
			return ""
		}
		return path.Clean(u.Path)
	case u.Scheme == "http" || u.Scheme == "https":
		p := u.Path
		if p == "" {
			p = "/"
		}
		user := ""
		if u.User != nil {
			user = u.User.String() + "@" // credentials are part of what is asked for: another user's view is another resource
		}
		return u.Scheme + "://" + user + foldHost(u.Scheme, u.Host) + path.Clean(p)
	default:
		c := *u
		c.Fragment = ""
		return c.String()
	}
}

func (s *Storage) faultFor(loc string) *ReadFault {
	n := s.Count[loc]
	for i := range s.Faults {
		f := &s.Faults[i]
		if f.Loc == loc && (f.Nth == 0 || f.Nth == n) {
			return f
		}
	}
	return nil
}

// foldHost: host case and the scheme's default port do not make another
// resource (RFC 3986 6.2.3).
func foldHost(scheme, host string) string {
	host = strings.ToLower(host)
	if scheme == "http" {
		return strings.TrimSuffix(host, ":80")
	}
	return strings.TrimSuffix(host, ":443")
}

// Partial is the part of content a partial delivery hands over under fault f
// (torn: cut anywhere; http_short: cut at a line boundary; http_reset: cut
// anywhere, with an error).
func Partial(content []byte, f ReadFault) []byte {
	cut := f.Cut
	if cut < 0 || cut > len(content) {
		cut = len(content) / 2
	}
	if f.Kind == "http_short" {
		if i := strings.LastIndexByte(string(content[:cut]), '\n'); i > 0 {
			cut = i + 1
		}
	}
	return append([]byte{}, content[:cut]...)
}

// read is the single point every simulated read goes through.
func (s *Storage) read(loc, via string) (data []byte, err error, fault string) {
	s.mu.Lock() // (a loader may fetch in parallel)
	defer s.mu.Unlock()
	s.Count[loc]++
	total := 0
	for _, c := range s.Count {
		total += c
	}
	defer func() {
		ev := ReadEvent{Loc: loc, Via: via, OK: err == nil, Fault: fault}
		if s.Log != nil {
			res := "ok"
			if err != nil {
				res = "err: " + err.Error()
			}
			if fault != "" {
				res += " [fault " + fault + "]"
			}
			ev.Seq = s.Log.Add("loader", "read:"+via, loc, res)
		}
		s.Events = append(s.Events, ev)
	}()
	if total > s.Budget {
		panic(BudgetExceeded{total})
	}
	content, ok := s.Files[loc]
	if alt, has := s.Alt[loc]; has && s.Count[loc] >= 2 {
		content = alt
		s.Fired["changed"]++
		fault = "changed"
	}
	if f := s.faultFor(loc); f != nil && ok {
		switch f.Kind {
		case "enoent":
			s.Fired["enoent"]++
			return nil, &fs.PathError{Op: "open", Path: loc, Err: fs.ErrNotExist}, "enoent"
		case "eio":
			s.Fired["eio"]++
			return nil, fmt.Errorf("read %s: input/output error", loc), "eio"
		case "torn":
			cut := f.Cut
			if cut < 0 || cut > len(content) {
				cut = len(content) / 2
			}
			s.Fired["torn"]++
			return append([]byte{}, content[:cut]...), nil, "torn"
		case "http5xx":
			if via == "http" {
				s.Fired["http5xx"]++
				return nil, errHTTP5xx, "http5xx"
			}
			s.Fired["eio"]++
			return nil, fmt.Errorf("read %s: input/output error", loc), "eio"
		case "unsupported":
			// a custom reader that declines the location (openapi3.ErrURINotSupported is what it returns)
			if via == "func" {
				s.Fired["unsupported"]++
				return nil, ErrUnsupported, "unsupported"
			}
			s.Fired["eio"]++
			return nil, fmt.Errorf("read %s: input/output error", loc), "eio"
		case "http_short":
			// the response announces more than the connection delivers: the body ends early with
			// io.ErrUnexpectedEOF, cut at a line boundary (so that what did arrive may well parse)
			if via == "http" {
				s.Fired["http_short"]++
				cut := f.Cut
				if cut < 0 || cut > len(content) {
					cut = len(content) / 2
				}
				if i := strings.LastIndexByte(string(content[:cut]), '\n'); i > 0 {
					cut = i + 1
				}
				return append([]byte{}, content[:cut]...), errHTTPShort, "http_short"
			}
			s.Fired["eio"]++
			return nil, fmt.Errorf("read %s: input/output error", loc), "eio"
		case "http_reset":
			if via == "http" {
				s.Fired["http_reset"]++
				cut := f.Cut
				if cut < 0 || cut > len(content) {
					cut = len(content) / 2
				}
				return append([]byte{}, content[:cut]...), errHTTPReset, "http_reset"
			}
			s.Fired["eio"]++
			return nil, fmt.Errorf("read %s: connection reset by peer", loc), "eio"
		}
	}
	if !ok {
		return nil, &fs.PathError{Op: "open", Path: loc, Err: fs.ErrNotExist}, ""
	}
	return append([]byte{}, content...), nil, fault
}

var (
	errHTTP5xx   = errors.New("http 503")
	errHTTPReset = errors.New("connection reset by peer")
	errHTTPShort = io.ErrUnexpectedEOF
	// ErrUnsupported is replaced by the harness with the library's own sentinel (openapi3.ErrURINotSupported)
	ErrUnsupported = errors.New("unsupported URI")
)

// ReadURL serves a custom ReadFromURIFunc.
func (s *Storage) ReadURL(u *url.URL) ([]byte, error) {
	loc := Canon(u)
	data, err, _ := s.read(loc, "func")
	if err == errHTTP5xx || err == errHTTPReset || err == errHTTPShort {
		return nil, fmt.Errorf("error loading %q: %v", loc, err)
	}
	return data, err
}

// ReadFile serves the library's os.ReadFile calls (via zzsimrt).
func (s *Storage) ReadFile(name string) ([]byte, error, bool) {
	loc := path.Clean(name) // (a backslash is an ordinary character of a POSIX file name)
	data, err, _ := s.read(loc, "os")
	return data, err, true
}

// RoundTrip serves http.DefaultTransport.
func (s *Storage) RoundTrip(req *http.Request) (*http.Response, error) {
	u := req.URL
	if user, pw, ok := req.BasicAuth(); ok && u.User == nil {
		// credentials presented in the Authorization header instead of the URL (what net/http itself does
		// with userinfo): the same resource as seen by the same user
		c := *u
		c.User = url.UserPassword(user, pw)
		u = &c
	}
	loc := Canon(u)
	if _, known := s.hosts()[foldHost(req.URL.Scheme, req.URL.Host)]; !known {
		s.mu.Lock()
		defer s.mu.Unlock()
		s.Count[loc]++
		ev := ReadEvent{Loc: loc, Via: "http", OK: false}
		if s.Log != nil {
			ev.Seq = s.Log.Add("loader", "read:http", loc, "dial error: unknown host")
		}
		s.Events = append(s.Events, ev)
		return nil, fmt.Errorf("dial tcp: lookup %s: no such host", req.URL.Host)
	}
	data, err, _ := s.read(loc, "http")
	mk := func(code int, body io.ReadCloser) *http.Response {
		return &http.Response{StatusCode: code, Status: fmt.Sprintf("%d %s", code, http.StatusText(code)), Proto: "HTTP/1.1", ProtoMajor: 1, ProtoMinor: 1,
			Header: http.Header{"Content-Type": {"application/json"}}, Body: body, Request: req, ContentLength: -1}
	}
	switch {
	case err == errHTTP5xx:
		return mk(503, io.NopCloser(strings.NewReader("unavailable"))), nil
	case err == errHTTPReset:
		return mk(200, &resetBody{data: data, err: errHTTPReset}), nil
	case err == errHTTPShort:
		r := mk(200, &resetBody{data: data, err: io.ErrUnexpectedEOF})
		r.ContentLength = int64(len(data)) + 100
		return r, nil
	case err != nil:
		return mk(404, io.NopCloser(strings.NewReader("not found"))), nil
	}
	return mk(200, io.NopCloser(strings.NewReader(string(data)))), nil
}

func (s *Storage) hosts() map[string]bool {
	h := map[string]bool{}
	for loc := range s.Files {
		if u, err := url.Parse(loc); err == nil && u.Host != "" {
			h[u.Host] = true
		}
	}
	return h
}

type resetBody struct {
	data []byte
	pos  int
	err  error
}

func (b *resetBody) Read(p []byte) (int, error) {
	if b.pos >= len(b.data) {
		return 0, b.err
	}
	n := copy(p, b.data[b.pos:])
	b.pos += n
	return n, nil
}
func (b *resetBody) Close() error { return nil }
