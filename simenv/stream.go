// Package simenv is the simulated environment around kin-openapi: body
// streams, the client connection, handler scripts, storage and transport.
// Every component is a deterministic function of its plan and logs each call
// as an event.
package simenv

import (
	"errors"
	"fmt"
	"io"
	"net/http"

	"verif/simfw"
)

// ChunkPlan says how a body is delivered by the stream: in which pieces, how
// EOF arrives, and whether (and where) the stream fails.
type ChunkPlan struct {
	Sizes       []int  `json:"sizes,omitempty"`         // cyclic; an entry 0 is a (0,nil) read (at most MaxZero in a row)
	EOFWithData bool   `json:"eof_with_data,omitempty"` // last bytes returned together with io.EOF
	FaultAt     int    `json:"fault_at,omitempty"`      // 0 = no fault; else the read that would pass this byte offset fails after delivering bytes up to it
	FaultKind   string `json:"fault_kind,omitempty"`    // eio | reset | unexpected_eof
	CloseErr    bool   `json:"close_err,omitempty"`     // Close reports an error (all bytes may have been delivered by then)
}

var (
	ErrSimEIO   = errors.New("simulated I/O error")
	ErrSimReset = errors.New("simulated connection reset by peer")
	ErrSimClose = errors.New("simulated error on close")
)

// Stream is an io.ReadCloser with net/http request-body semantics for reads
// after Close.
type Stream struct {
	Name   string
	Data   []byte
	Plan   ChunkPlan
	Log    *simfw.Log
	Party  *string // who is reading now (set by the harness around each party)
	pos    int
	idx    int
	zeros  int
	closed bool
	failed bool

	Reads        int
	Closes       int
	Delivered    int
	FaultFired   bool
	FaultSeenBy  string
	ReadsByParty map[string]int
	ReadAfterEOF int
	sawEOF       bool
	CloseErrs    int // times Close reported the planned error
}

func NewStream(name string, data []byte, plan ChunkPlan, log *simfw.Log, party *string) *Stream {
	return &Stream{Name: name, Data: data, Plan: plan, Log: log, Party: party, ReadsByParty: map[string]int{}}
}

func (s *Stream) party() string {
	if s.Party == nil {
		return "?"
	}
	return *s.Party
}

func (s *Stream) faultErr() error {
	switch s.Plan.FaultKind {
	case "reset":
		return ErrSimReset
	case "unexpected_eof":
		return io.ErrUnexpectedEOF
	default:
		return ErrSimEIO
	}
}

func (s *Stream) Read(p []byte) (n int, err error) {
	s.Reads++
	s.ReadsByParty[s.party()]++
	defer func() {
		if s.Log != nil {
			res := fmt.Sprintf("n=%d", n)
			if err != nil {
				res += " err=" + err.Error()
			}
			s.Log.Add(s.party(), "read:"+s.Name, fmt.Sprintf("buf=%d", len(p)), res)
		}
	}()
	if s.closed {
		return 0, http.ErrBodyReadAfterClose
	}
	if s.failed {
		return 0, s.faultErr()
	}
	if len(p) == 0 {
		return 0, nil
	}
	remaining := len(s.Data) - s.pos
	if remaining == 0 {
		if s.sawEOF {
			s.ReadAfterEOF++
		}
		s.sawEOF = true
		return 0, io.EOF
	}
	size := remaining
	if len(s.Plan.Sizes) > 0 {
		size = s.Plan.Sizes[s.idx%len(s.Plan.Sizes)]
		s.idx++
		if size < 0 {
			size = -size
		}
		if size == 0 {
			s.zeros++
			if s.zeros <= 2 {
				return 0, nil
			}
			size = 1
		} else {
			s.zeros = 0
		}
	}
	if size > len(p) {
		size = len(p)
	}
	if size > remaining {
		size = remaining
	}
	if fa := s.Plan.FaultAt; fa > 0 && fa < len(s.Data) && s.pos+size > fa {
		// deliver up to the fault offset, then fail
		size = fa - s.pos
		copy(p, s.Data[s.pos:s.pos+size])
		s.pos += size
		s.Delivered += size
		s.failed = true
		s.FaultFired = true
		s.FaultSeenBy = s.party()
		return size, s.faultErr()
	}
	copy(p, s.Data[s.pos:s.pos+size])
	s.pos += size
	s.Delivered += size
	if s.pos == len(s.Data) && s.Plan.EOFWithData {
		s.sawEOF = true
		return size, io.EOF
	}
	return size, nil
}

func (s *Stream) Close() error {
	s.Closes++
	s.closed = true
	if s.Plan.CloseErr {
		s.CloseErrs++
		if s.Log != nil {
			s.Log.Add(s.party(), "close:"+s.Name, "", "err="+ErrSimClose.Error())
		}
		return ErrSimClose
	}
	if s.Log != nil {
		s.Log.Add(s.party(), "close:"+s.Name, "", "")
	}
	return nil
}

// FaultArmed reports whether the plan holds a fault that can fire.
func (s *Stream) FaultArmed() bool {
	return s.Plan.FaultAt > 0 && s.Plan.FaultAt < len(s.Data)
}

// ReadAllLimited reads r to EOF with the given buffer size and a bound on the
// number of Read calls (liveness as bounded progress).
func ReadAllLimited(r io.Reader, buf int, maxReads int) (data []byte, reads int, err error) {
	if buf <= 0 {
		buf = 512
	}
	b := make([]byte, buf)
	for reads < maxReads {
		n, e := r.Read(b)
		reads++
		data = append(data, b[:n]...)
		if e == io.EOF {
			return data, reads, nil
		}
		if e != nil {
			return data, reads, e
		}
	}
	return data, reads, errors.New("read budget exhausted")
}
