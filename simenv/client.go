package simenv

import (
	"bytes"
	"errors"
	"fmt"
	"net/http"
	"sort"
	"strings"

	"verif/simfw"
)

// ClientPlan holds the client-connection faults of one request.
type ClientPlan struct {
	WriteErrAt int  `json:"write_err_at,omitempty"` // 0 = none; the write that would pass this many body bytes delivers up to it and fails, as do all later writes
	Short      bool `json:"short,omitempty"`        // the failing write reports the bytes it did deliver (short write) instead of 0
	NoFlusher  bool `json:"no_flusher,omitempty"`   // the connection does not implement http.Flusher
}

var ErrSimClientGone = errors.New("simulated client write error: broken pipe")

// Client is the client side of a connection: an http.ResponseWriter that
// follows net/http's server semantics, because C14 speaks of what reaches the
// client. Modelled (from the net/http documentation of ResponseWriter and
// (*response).WriteHeader): the first final WriteHeader wins and snapshots the
// headers; Write before WriteHeader implies 200; 1xx codes other than 101 are
// informational and do not finalise; a code outside 100..999 panics; later
// WriteHeader calls are ignored; a handler that returns without writing yields
// 200 with an empty body; bodies are not allowed for 1xx/204/304.
type Client struct {
	Log    *simfw.Log
	Plan   ClientPlan
	Method string

	hdr           http.Header
	wroteHeader   bool
	Status        int
	Snapshot      http.Header
	Body          bytes.Buffer
	Informational []int
	Superfluous   int
	Flushes       int
	Calls         int
	failed        bool
	FaultFired    bool
	attempted     int
}

func NewClient(log *simfw.Log, plan ClientPlan, method string) *Client {
	return &Client{Log: log, Plan: plan, hdr: http.Header{}, Method: method}
}

func (c *Client) ev(op, arg, res string) {
	c.Calls++
	if c.Log != nil {
		c.Log.Add("client", op, arg, res)
	}
}

func (c *Client) Header() http.Header { return c.hdr }

func (c *Client) WriteHeader(code int) {
	if code < 100 || code > 999 {
		c.ev("WriteHeader", fmt.Sprint(code), "panic")
		panic(fmt.Sprintf("invalid WriteHeader code %v", code))
	}
	if c.wroteHeader {
		c.Superfluous++
		c.ev("WriteHeader", fmt.Sprint(code), "superfluous")
		return
	}
	if code >= 100 && code <= 199 && code != http.StatusSwitchingProtocols {
		c.Informational = append(c.Informational, code)
		c.ev("WriteHeader", fmt.Sprint(code), "informational")
		return
	}
	c.wroteHeader = true
	c.Status = code
	c.Snapshot = c.hdr.Clone()
	c.ev("WriteHeader", fmt.Sprint(code), "final")
}

func bodyAllowed(status int) bool {
	switch {
	case status >= 100 && status <= 199:
		return false
	case status == 204, status == 304:
		return false
	}
	return true
}

func (c *Client) Write(b []byte) (int, error) {
	if !c.wroteHeader {
		c.WriteHeader(http.StatusOK)
	}
	if len(b) == 0 {
		c.ev("Write", "0", "n=0")
		return 0, nil
	}
	if !bodyAllowed(c.Status) {
		c.ev("Write", simfw.Trunc(string(b), 40), "body-not-allowed")
		return 0, http.ErrBodyNotAllowed
	}
	if c.failed {
		c.ev("Write", simfw.Trunc(string(b), 40), "err")
		return 0, ErrSimClientGone
	}
	if c.Method == "HEAD" {
		c.ev("Write", simfw.Trunc(string(b), 40), "discarded-head")
		return len(b), nil
	}
	if k := c.Plan.WriteErrAt; k > 0 && c.Body.Len()+len(b) > k {
		n := k - c.Body.Len()
		if n < 0 {
			n = 0
		}
		c.Body.Write(b[:n])
		c.failed = true
		c.FaultFired = true
		c.ev("Write", simfw.Trunc(string(b), 40), fmt.Sprintf("fault after %d", n))
		if c.Plan.Short {
			return n, ErrSimClientGone
		}
		return 0, ErrSimClientGone
	}
	c.Body.Write(b)
	c.ev("Write", simfw.Trunc(string(b), 40), fmt.Sprintf("n=%d", len(b)))
	return len(b), nil
}

// Finalise is what net/http does when the handler returns.
func (c *Client) Finalise() {
	if !c.wroteHeader {
		c.wroteHeader = true
		c.Status = http.StatusOK
		c.Snapshot = c.hdr.Clone()
		c.ev("finalise", "", "implicit 200")
	}
}

// View is what the client received.
type View struct {
	Status int
	Body   string
	Header string // canonical rendering of the snapshot restricted to compared keys
}

func (c *Client) View(compareHeaders []string) View {
	v := View{Status: c.Status, Body: c.Body.String()}
	var parts []string
	for _, k := range compareHeaders {
		if vals, ok := c.Snapshot[http.CanonicalHeaderKey(k)]; ok {
			parts = append(parts, k+"="+strings.Join(vals, ","))
		}
	}
	sort.Strings(parts)
	v.Header = strings.Join(parts, ";")
	return v
}

// FlushClient adds http.Flusher to a Client.
type FlushClient struct{ *Client }

func (f FlushClient) Flush() {
	if !f.wroteHeader {
		f.WriteHeader(http.StatusOK)
	}
	f.Flushes++
	f.ev("Flush", "", "")
}

// Writer returns the http.ResponseWriter the server side sees.
func (c *Client) Writer() http.ResponseWriter {
	if c.Plan.NoFlusher {
		return c
	}
	return FlushClient{c}
}
