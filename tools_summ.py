import json,collections,sys
sig=collections.Counter(); ex={}
for l in open(sys.argv[1]):
    r=json.loads(l)
    if r['type']=='violation':
        for v in r['violations']:
            sig[v['sig']]+=1; ex.setdefault(v['sig'],(v['detail'],r['index']))
    else:
        print({k:r.get(k) for k in ['runs','steps','nontrivial','inconclusive','inconclusive_why','wall_s']}); print(r['probes']); print(r['faults']); print(len(r['classes']))
for s,c in sig.most_common(): print(c,s,'\n    ',ex[s][1],ex[s][0].replace('\n',' ')[:int(sys.argv[2]) if len(sys.argv)>2 else 400])
