module verif

go 1.22.5

require github.com/getkin/kin-openapi v0.0.0

replace github.com/getkin/kin-openapi => /repo
