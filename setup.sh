#!/bin/bash
# Builds the framework from files on disk only (offline).
set -euo pipefail
cd "$(dirname "$0")"
export GOFLAGS=-mod=mod GOPROXY=off GOSUMDB=off GOTOOLCHAIN=local
mkdir -p bin evidence replays
(cd instr && go build -trimpath -o ../bin/instrument .)
go build -trimpath -o bin/check ./cmd/check
# warm the build cache (plain and race standard library + dependencies)
./bin/check warm
echo "setup ok"
