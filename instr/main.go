// Command instrument rewrites a scratch copy of kin-openapi so that the
// simulator owns its sources of nondeterminism (DESIGN.md §2.1):
//
//   - yield points: function entry; statements that touch package-level
//     variables, call methods of sync types, or store through a pointer, field,
//     index or map element
//   - X.Lock()/X.RLock() statements become TryLock loops with a blocked-yield
//   - range over a map with ordered keys iterates in an order the simulator
//     decides (sorted, or a seeded permutation)
//   - os.ReadFile / os.Stdin in package openapi3 go through the simulated FS
//
// It works on text edits at positions found in the type-checked AST, so
// comments, build tags and formatting of the original are preserved and any
// tree that compiles keeps compiling. It never touches /repo: it is pointed at
// a copy.
package main

import (
	"encoding/json"
	"flag"
	"fmt"
	"go/ast"
	"go/token"
	"go/types"
	"os"
	"path/filepath"
	"sort"
	"strings"

	"golang.org/x/tools/go/packages"
)

type site struct {
	ID   int    `json:"id"`
	File string `json:"file"`
	Line int    `json:"line"`
	Kind string `json:"kind"`
	Func string `json:"func"`
	Obj  string `json:"obj,omitempty"` // shared object touched, when known
}

type edit struct {
	start, end int // byte offsets; start==end is an insertion
	text       string
	prio       int // among insertions at the same offset, lower first
}

var (
	sites    []site
	modPath  string
	rootDir  string
	doYields = flag.Bool("yields", true, "insert yield points")
	doLocks  = flag.Bool("locks", true, "rewrite Lock/RLock")
	doMaps   = flag.Bool("maps", true, "rewrite map ranges")
	doFS     = flag.Bool("fs", true, "redirect os.ReadFile/os.Stdin in openapi3")
	forRace  = flag.Bool("race", false, "the copy will be built with -race: select files by the race build tag")
)

var startsGoroutines = map[string]bool{}

func newSite(fset *token.FileSet, pos token.Pos, kind, fn, obj string) int {
	p := fset.Position(pos)
	rel, _ := filepath.Rel(rootDir, p.Filename)
	id := len(sites)
	sites = append(sites, site{ID: id, File: rel, Line: p.Line, Kind: kind, Func: fn, Obj: obj})
	return id
}

func main() {
	dir := flag.String("dir", "", "scratch copy of the repository (rewritten in place)")
	simrt := flag.String("simrt", "", "directory holding the zzsimrt sources to copy in")
	sitesOut := flag.String("sites", "", "write the site table here (JSON)")
	flag.Parse()
	if *dir == "" || *simrt == "" {
		fmt.Fprintln(os.Stderr, "usage: instrument -dir <copy> -simrt <dir> [-sites file]")
		os.Exit(2)
	}
	rootDir, _ = filepath.Abs(*dir)
	gm, err := os.ReadFile(filepath.Join(rootDir, "go.mod"))
	check(err)
	for _, l := range strings.Split(string(gm), "\n") {
		if strings.HasPrefix(l, "module ") {
			modPath = strings.TrimSpace(strings.TrimPrefix(l, "module "))
		}
	}
	if modPath == "" {
		fail("no module path in go.mod")
	}

	// copy the runtime in first so that rewritten files type-check on rebuild
	dst := filepath.Join(rootDir, "zzsimrt")
	check(os.MkdirAll(dst, 0o755))
	ents, err := os.ReadDir(*simrt)
	check(err)
	for _, e := range ents {
		if e.IsDir() || !strings.HasSuffix(e.Name(), ".go") || strings.HasSuffix(e.Name(), "_test.go") {
			continue
		}
		b, err := os.ReadFile(filepath.Join(*simrt, e.Name()))
		check(err)
		check(os.WriteFile(filepath.Join(dst, e.Name()), b, 0o644))
	}

	cfg := &packages.Config{
		Mode: packages.NeedName | packages.NeedFiles | packages.NeedCompiledGoFiles | packages.NeedSyntax |
			packages.NeedTypes | packages.NeedTypesInfo | packages.NeedImports | packages.NeedDeps,
		Dir: rootDir,
		Env: append(os.Environ(), "GOFLAGS=-mod=mod", "GOPROXY=off", "GOSUMDB=off"),
	}
	if *forRace {
		cfg.BuildFlags = []string{"-tags=race"}
	}
	// every library package of the tree (a changed tree may have new ones); commands and the runtime itself are left alone
	all, err := packages.Load(cfg, "./...")
	check(err)
	var pkgs []*packages.Package
	nerr := 0
	for _, p := range all {
		if p.Name == "main" || p.PkgPath == modPath+"/zzsimrt" || strings.HasPrefix(p.PkgPath, modPath+"/cmd/") || strings.HasPrefix(p.PkgPath, modPath+"/.github") {
			continue
		}
		pkgs = append(pkgs, p)
		for _, e := range p.Errors {
			fmt.Fprintln(os.Stderr, "load error:", e)
			nerr++
		}
	}
	if nerr > 0 {
		fail("the tree does not type-check; not instrumenting")
	}
	sort.Slice(pkgs, func(i, j int) bool { return pkgs[i].PkgPath < pkgs[j].PkgPath })

	stats := map[string]int{}
	for _, p := range pkgs {
		// a package that starts goroutines of its own talks to them over channels and condition variables:
		// those callers are not the scheduler's, so the blocking stays real there
		for i, f := range p.Syntax {
			if strings.HasSuffix(p.CompiledGoFiles[i], "_test.go") {
				continue
			}
			ast.Inspect(f, func(n ast.Node) bool {
				if _, ok := n.(*ast.GoStmt); ok {
					startsGoroutines[p.PkgPath] = true
				}
				return true
			})
		}
	}
	for _, p := range pkgs {
		for i, f := range p.Syntax {
			name := p.CompiledGoFiles[i]
			if strings.HasSuffix(name, "_test.go") {
				continue
			}
			src, err := os.ReadFile(name)
			check(err)
			out, n := rewriteFile(p, f, src, stats)
			if n > 0 {
				check(os.WriteFile(name, out, 0o644))
			}
		}
	}

	// site table, both as JSON and compiled into the runtime
	if *sitesOut != "" {
		b, _ := json.Marshal(sites)
		check(os.WriteFile(*sitesOut, b, 0o644))
	}
	var sb strings.Builder
	sb.WriteString("package zzsimrt\n\n// Code generated by verif/instr. DO NOT EDIT.\n\nfunc init() {\n\tSites = []Site{\n")
	for _, s := range sites {
		fmt.Fprintf(&sb, "\t\t{%q, %d, %q, %q, %q},\n", s.File, s.Line, s.Kind, s.Func, s.Obj)
	}
	sb.WriteString("\t}\n")
	if len(startsGoroutines) > 0 {
		sb.WriteString("\tLibraryStartsGoroutines = true\n")
	}
	sb.WriteString("}\n")
	check(os.WriteFile(filepath.Join(dst, "sites_gen.go"), []byte(sb.String()), 0o644))

	keys := make([]string, 0, len(stats))
	for k := range stats {
		keys = append(keys, k)
	}
	sort.Strings(keys)
	fmt.Printf("instrumented %d sites:", len(sites))
	for _, k := range keys {
		fmt.Printf(" %s=%d", k, stats[k])
	}
	fmt.Println()
}

func check(err error) {
	if err != nil {
		fail(err.Error())
	}
}

func fail(msg string) {
	fmt.Fprintln(os.Stderr, "instrument:", msg)
	os.Exit(2)
}

type rewriter struct {
	pkg    *packages.Package
	fset   *token.FileSet
	src    []byte
	edits  []edit
	stats  map[string]int
	fn     string
	usedOS bool
	keep   map[string]string // local import name -> an exported identifier of that package (keeps the import used after a rewrite)
	zzn    int
	quiet  int // >0 inside the body of a range over a map whose iteration order the simulator cannot own
}

func (r *rewriter) off(p token.Pos) int { return r.fset.Position(p).Offset }
func (r *rewriter) text(n ast.Node) string {
	return string(r.src[r.off(n.Pos()):r.off(n.End())])
}
func (r *rewriter) insert(p token.Pos, text string, prio int) {
	o := r.off(p)
	r.edits = append(r.edits, edit{o, o, text, prio})
}
func (r *rewriter) replace(from, to token.Pos, text string) {
	r.edits = append(r.edits, edit{r.off(from), r.off(to), text, 0})
}

func rewriteFile(p *packages.Package, f *ast.File, src []byte, stats map[string]int) ([]byte, int) {
	r := &rewriter{pkg: p, fset: p.Fset, src: src, stats: stats}
	for _, d := range f.Decls {
		fd, ok := d.(*ast.FuncDecl)
		if !ok || fd.Body == nil {
			// package-level var initialisers may contain func literals
			if gd, ok := d.(*ast.GenDecl); ok {
				r.fn = "<pkg>"
				ast.Inspect(gd, func(n ast.Node) bool {
					if fl, ok := n.(*ast.FuncLit); ok {
						r.funcBody(fl.Body, "<pkg>.func")
						return false
					}
					return true
				})
			}
			continue
		}
		name := fd.Name.Name
		if fd.Recv != nil && len(fd.Recv.List) > 0 {
			name = strings.TrimPrefix(types.ExprString(fd.Recv.List[0].Type), "*") + "." + name
		}
		r.funcBody(fd.Body, p.Name+"."+name)
	}
	if *doFS && p.Name == "openapi3" {
		ast.Inspect(f, func(n ast.Node) bool {
			sel, ok := n.(*ast.SelectorExpr)
			if !ok {
				return true
			}
			id, ok := sel.X.(*ast.Ident)
			if !ok {
				return true
			}
			pn, ok := p.TypesInfo.Uses[id].(*types.PkgName)
			if !ok {
				return true
			}
			alive := func() {
				if r.keep == nil {
					r.keep = map[string]string{}
				}
				switch pn.Imported().Path() {
				case "os":
					r.keep[pn.Name()] = "ErrNotExist"
				case "io/ioutil":
					r.keep[pn.Name()] = "Discard"
				}
			}
			switch pn.Imported().Path() + "." + sel.Sel.Name {
			case "os.ReadFile", "io/ioutil.ReadFile":
				r.replace(sel.Pos(), sel.End(), "zzsimrt.ReadFile")
				alive()
				r.stats["fs"]++
			case "os.Open", "os.Stat", "os.Lstat":
				// other ways to get at a file's content or existence go through the same seam
				r.replace(sel.Pos(), sel.End(), "zzsimrt."+sel.Sel.Name)
				alive()
				r.stats["fs"]++
			case "os.Stdin":
				r.replace(sel.Pos(), sel.End(), "zzsimrt.Stdin()")
				alive()
				r.stats["fs"]++
			case "os.OpenFile", "os.ReadDir", "os.DirFS", "os.ReadLink", "io/ioutil.ReadDir":
				fmt.Fprintf(os.Stderr, "note: %s at %s is not redirected to the simulated storage: reads through it are invisible to the loader checks\n", pn.Imported().Path()+"."+sel.Sel.Name, r.fset.Position(sel.Pos()))
			}
			return true
		})
	}
	if *doLocks {
		// x.Do(f) on a sync.Once: the waiting becomes cooperative (zzsimrt.OnceDo); only the head of
		// the call is replaced, the argument keeps its own instrumentation
		ast.Inspect(f, func(n ast.Node) bool {
			call, ok := n.(*ast.CallExpr)
			if !ok || len(call.Args) != 1 {
				return true
			}
			sel, ok := call.Fun.(*ast.SelectorExpr)
			if !ok || sel.Sel.Name != "Do" {
				return true
			}
			t := p.TypesInfo.TypeOf(sel.X)
			if t == nil {
				return true
			}
			recv := "&(" + r.text(sel.X) + ")"
			if pt, ok := t.(*types.Pointer); ok {
				t = pt.Elem()
				recv = r.text(sel.X)
			}
			named, ok := t.(*types.Named)
			if !ok || named.Obj().Pkg() == nil || named.Obj().Pkg().Path() != "sync" || named.Obj().Name() != "Once" {
				// Do promoted from a sync.Once embedded by value: the Once is the field of that name
				if s := p.TypesInfo.Selections[sel]; s != nil && len(s.Index()) == 2 && r.isSyncMethod(sel, "Once") {
					if st, ok := t.Underlying().(*types.Struct); ok {
						if f := st.Field(s.Index()[0]); f.Embedded() && f.Name() == "Once" {
							if _, ptr := f.Type().(*types.Pointer); ptr {
								recv = "(" + r.text(sel.X) + ").Once"
							} else {
								recv = "&(" + r.text(sel.X) + ").Once"
							}
							id := newSite(r.fset, call.Pos(), "once", "", r.text(sel.X))
							r.replace(call.Pos(), call.Lparen+1, fmt.Sprintf("zzsimrt.OnceDo(%d, %s, ", id, recv))
							r.stats["once"]++
						}
					}
				}
				return true
			}
			id := newSite(r.fset, call.Pos(), "once", "", r.text(sel.X))
			r.replace(call.Pos(), call.Lparen+1, fmt.Sprintf("zzsimrt.OnceDo(%d, %s, ", id, recv))
			r.stats["once"]++
			return true
		})
	}
	if *doLocks {
		// sync.OnceFunc / OnceValue / OnceValues hide a Once in a closure: their zzsimrt twins are built on OnceDo
		ast.Inspect(f, func(n ast.Node) bool {
			call, ok := n.(*ast.CallExpr)
			if !ok || len(call.Args) != 1 {
				return true
			}
			fun := call.Fun
			switch x := fun.(type) {
			case *ast.IndexExpr:
				fun = x.X
			case *ast.IndexListExpr:
				fun = x.X
			}
			sel, ok := fun.(*ast.SelectorExpr)
			if !ok {
				return true
			}
			id, ok := sel.X.(*ast.Ident)
			if !ok {
				return true
			}
			pn, ok := p.TypesInfo.Uses[id].(*types.PkgName)
			if !ok || pn.Imported().Path() != "sync" {
				return true
			}
			switch sel.Sel.Name {
			case "OnceFunc", "OnceValue", "OnceValues":
				site := newSite(r.fset, call.Pos(), "once", "", "sync."+sel.Sel.Name)
				r.replace(sel.Pos(), sel.End(), "zzsimrt."+sel.Sel.Name)
				r.insert(call.Lparen+1, fmt.Sprintf("%d, ", site), 0)
				if r.keep == nil {
					r.keep = map[string]string{}
				}
				r.keep[pn.Name()] = "NewCond"
				r.stats["once"]++
			}
			return true
		})
	}
	if *doLocks {
		// (also in packages that start goroutines of their own: the operations decide at run time whether the
		// goroutine executing them is the caller holding the turn, and block for real otherwise)
		r.blocking(f)
	}
	if len(r.edits) == 0 {
		return src, 0
	}
	// import, placed right after the package clause
	imp := fmt.Sprintf("\nimport zzsimrt %q\n", modPath+"/zzsimrt")
	r.edits = append(r.edits, edit{r.off(f.Name.End()), r.off(f.Name.End()), imp, 0})
	tail := "\nvar _ = zzsimrt.Yield\n"
	names := make([]string, 0, len(r.keep))
	for n := range r.keep {
		names = append(names, n)
	}
	sort.Strings(names)
	for _, n := range names {
		tail += fmt.Sprintf("var _ = %s.%s\n", n, r.keep[n])
	}
	return apply(src, r.edits, tail), len(r.edits)
}

// blocking makes the remaining blocking operations between callers cooperative:
// channel sends and receives outside select (`ch <- v`, `<-ch`, `v, ok := <-ch`)
// go through zzsimrt.Send / Recv / Recv2, which try without blocking and give the
// turn away while the channel is not ready; `c.Wait()` on a sync.Cond goes through
// zzsimrt.CondWait (unlock, give the turn away, lock again: a wake-up the caller's
// loop re-checks). Only the operator is replaced, operands keep their own edits.
// select statements, range over a channel and WaitGroup.Wait are left as they
// are (a caller that blocks in one while it holds the turn is reported by the
// progress watchdog as undecidable).
func (r *rewriter) blocking(f *ast.File) {
	inComm := map[ast.Node]bool{}
	commaOk := map[*ast.UnaryExpr]bool{}
	labelled := map[*ast.SelectStmt]bool{} // selects carrying a label of the program's own are left alone
	ast.Inspect(f, func(n ast.Node) bool {
		switch x := n.(type) {
		case *ast.LabeledStmt:
			if sel, ok := x.Stmt.(*ast.SelectStmt); ok {
				labelled[sel] = true
			}
		case *ast.CommClause:
			if x.Comm != nil {
				inComm[x.Comm] = true
			}
		case *ast.AssignStmt:
			if len(x.Lhs) == 2 && len(x.Rhs) == 1 {
				if u, ok := ast.Unparen(x.Rhs[0]).(*ast.UnaryExpr); ok && u.Op == token.ARROW {
					commaOk[u] = true
				}
			}
		case *ast.ValueSpec:
			if len(x.Names) == 2 && len(x.Values) == 1 {
				if u, ok := ast.Unparen(x.Values[0]).(*ast.UnaryExpr); ok && u.Op == token.ARROW {
					commaOk[u] = true
				}
			}
		}
		return true
	})
	var visit func(n ast.Node) bool
	visit = func(n ast.Node) bool {
		if n == nil {
			return true
		}
		if inComm[n] {
			return false // the communication of a select case stays as it is
		}
		switch x := n.(type) {
		case *ast.SelectStmt:
			// A select that would block: the caller holding the turn tries its communications without
			// blocking and gives the turn away in between; any other goroutine runs the select as written.
			// Operands are evaluated once, before, as Go does on entering a select.
			if labelled[x] || len(x.Body.List) == 0 {
				break
			}
			ok := true
			type subst struct {
				from, to token.Pos
				name     string
			}
			var hoist []subst
			for k, c := range x.Body.List {
				cc := c.(*ast.CommClause)
				if cc.Comm == nil {
					ok = false // has a default: never blocks
					break
				}
				var ch ast.Expr
				switch cm := cc.Comm.(type) {
				case *ast.SendStmt:
					ch = cm.Chan
					if hasCall(cm.Value) {
						ok = false // the value would be computed again at every try
					}
				case *ast.ExprStmt:
					if u, isRecv := ast.Unparen(cm.X).(*ast.UnaryExpr); isRecv {
						ch = u.X
					}
				case *ast.AssignStmt:
					if len(cm.Rhs) == 1 {
						if u, isRecv := ast.Unparen(cm.Rhs[0]).(*ast.UnaryExpr); isRecv {
							ch = u.X
						}
					}
				}
				if ch == nil {
					ok = false
					break
				}
				if hasCall(ch) {
					hoist = append(hoist, subst{ch.Pos(), ch.End(), fmt.Sprintf("zzc%d_%d", len(sites), k)})
				}
				for _, st := range cc.Body {
					ast.Inspect(st, func(m ast.Node) bool {
						if _, isLabel := m.(*ast.LabeledStmt); isLabel {
							ok = false // the body is written out twice: a label may not be
						}
						return true
					})
				}
			}
			if !ok {
				break
			}
			id := newSite(r.fset, x.Pos(), "chan", "", "select")
			label := fmt.Sprintf("zzsel%d", id)
			// the select as written (for goroutines that are not the scheduler's), operands replaced
			orig := []byte(r.text(x))
			for i := len(hoist) - 1; i >= 0; i-- {
				h := hoist[i]
				from, to := r.off(h.from)-r.off(x.Pos()), r.off(h.to)-r.off(x.Pos())
				orig = append(orig[:from:from], append([]byte(h.name), orig[to:]...)...)
			}
			head := "{ "
			for _, h := range hoist {
				head += fmt.Sprintf("%s := %s; ", h.name, string(r.src[r.off(h.from):r.off(h.to)]))
				r.replace(h.from, h.to, h.name)
			}
			head += fmt.Sprintf("if zzsimrt.TurnHolder() { %s: ", label)
			r.insert(x.Pos(), head, 2)
			r.insert(x.Body.Rbrace, fmt.Sprintf("default: zzsimrt.SelectBlocked(%d); goto %s\n", id, label), 0)
			r.insert(x.End(), " } else { "+string(orig)+" } }", 0)
			r.stats["select"]++
		case *ast.SendStmt:
			id := newSite(r.fset, x.Pos(), "chan", "", r.text(x.Chan))
			r.insert(x.Pos(), fmt.Sprintf("zzsimrt.Send(%d, ", id), 2)
			r.replace(x.Arrow, x.Arrow+2, ", ")
			r.insert(x.End(), ")", 0)
			r.stats["chan"]++
		case *ast.UnaryExpr:
			if x.Op == token.ARROW {
				fn := "Recv"
				if commaOk[x] {
					fn = "Recv2"
				}
				id := newSite(r.fset, x.Pos(), "chan", "", r.text(x.X))
				r.replace(x.OpPos, x.OpPos+2, fmt.Sprintf("zzsimrt.%s(%d, ", fn, id))
				r.insert(x.End(), ")", 0)
				r.stats["chan"]++
			}
		case *ast.CallExpr:
			if sel, ok := x.Fun.(*ast.SelectorExpr); ok && sel.Sel.Name == "Wait" && len(x.Args) == 0 && r.isSyncMethod(sel, "Cond") {
				recv := r.text(sel.X)
				if _, isPtr := r.pkg.TypesInfo.TypeOf(sel.X).(*types.Pointer); !isPtr {
					recv = "&(" + recv + ")"
				}
				id := newSite(r.fset, x.Pos(), "cond", "", r.text(sel.X))
				r.replace(x.Pos(), x.End(), fmt.Sprintf("zzsimrt.CondWait(%d, %s)", id, recv))
				r.stats["cond"]++
				return false
			}
		}
		return true
	}
	ast.Inspect(f, visit)
}

func hasCall(e ast.Expr) bool {
	found := false
	ast.Inspect(e, func(n ast.Node) bool {
		switch n.(type) {
		case *ast.CallExpr:
			found = true
		case *ast.FuncLit:
			return false
		}
		return !found
	})
	return found
}

func apply(src []byte, edits []edit, tail string) []byte {
	sort.SliceStable(edits, func(i, j int) bool {
		if edits[i].start != edits[j].start {
			return edits[i].start < edits[j].start
		}
		// insertions before replacements at the same offset
		li, lj := edits[i].end-edits[i].start, edits[j].end-edits[j].start
		if (li == 0) != (lj == 0) {
			return li == 0
		}
		return edits[i].prio < edits[j].prio
	})
	var out []byte
	pos := 0
	for _, e := range edits {
		if e.start < pos {
			continue // overlaps an earlier (outer) edit: drop the inner one
		}
		out = append(out, src[pos:e.start]...)
		out = append(out, e.text...)
		pos = e.end
	}
	out = append(out, src[pos:]...)
	out = append(out, tail...)
	return out
}

func (r *rewriter) funcBody(body *ast.BlockStmt, name string) {
	if body == nil {
		return
	}
	saved := r.fn
	r.fn = name
	if *doYields && r.quiet == 0 {
		id := newSite(r.fset, body.Lbrace, "entry", name, "")
		r.insert(body.Lbrace+1, fmt.Sprintf(" zzsimrt.Yield(%d); ", id), 0)
		r.stats["entry"]++
	}
	r.block(body.List)
	r.fn = saved
}

// loopYield puts a scheduling point at the head of a loop body: every iteration
// is a step, so that "terminates" can be stated as a step budget for any loop.
func (r *rewriter) loopYield(body *ast.BlockStmt) {
	if !*doYields || r.quiet > 0 || body == nil {
		return
	}
	id := newSite(r.fset, body.Lbrace, "loop", r.fn, "")
	r.insert(body.Lbrace+1, fmt.Sprintf(" zzsimrt.Yield(%d); ", id), 0)
	r.stats["loop"]++
}

func (r *rewriter) block(list []ast.Stmt) {
	for _, s := range list {
		r.stmt(s)
	}
}

// stmt handles a statement that sits directly in a statement list.
func (r *rewriter) stmt(s ast.Stmt) {
	if s == nil {
		return
	}
	inner := s
	for {
		if l, ok := inner.(*ast.LabeledStmt); ok {
			inner = l.Stmt
			continue
		}
		break
	}

	// lock rewriting (statement form only: `x.Lock()`)
	if es, ok := inner.(*ast.ExprStmt); ok && *doLocks {
		if call, ok := es.X.(*ast.CallExpr); ok && len(call.Args) == 0 {
			if sel, ok := call.Fun.(*ast.SelectorExpr); ok && (sel.Sel.Name == "Lock" || sel.Sel.Name == "RLock") {
				if sel.Sel.Name == "Lock" && r.isSyncLocker(sel.X) {
					// a lock reached through the sync.Locker interface (a Cond's L): decided at run time
					id := newSite(r.fset, es.Pos(), "lock", r.fn, r.text(sel.X))
					r.replace(es.Pos(), es.End(), fmt.Sprintf("zzsimrt.Yield(%d); zzsimrt.LockerLock(%d, %s)", id, id, r.text(sel.X)))
					r.stats["lock"]++
					return
				}
				if r.isSyncMutex(sel.X) || r.isSyncMethod(sel, "Mutex", "RWMutex") {
					try := "TryLock"
					if sel.Sel.Name == "RLock" {
						try = "TryRLock"
					}
					id := newSite(r.fset, es.Pos(), "lock", r.fn, r.text(sel.X))
					recv := r.text(sel.X)
					r.replace(es.Pos(), es.End(), fmt.Sprintf("zzsimrt.Yield(%d); for !%s.%s() { zzsimrt.YieldBlocked(%d) }", id, recv, try, id))
					r.stats["lock"]++
					return
				}
			}
		}
	}

	if *doYields && r.quiet == 0 {
		if kind, obj := r.interesting(inner); kind != "" {
			id := newSite(r.fset, s.Pos(), kind, r.fn, obj)
			r.insert(s.Pos(), fmt.Sprintf("zzsimrt.Yield(%d); ", id), 1)
			r.stats[kind]++
		}
	}

	// descend
	switch n := inner.(type) {
	case *ast.BlockStmt:
		r.block(n.List)
	case *ast.IfStmt:
		r.lits(n.Init)
		r.litsExpr(n.Cond)
		r.block(n.Body.List)
		if n.Else != nil {
			switch e := n.Else.(type) {
			case *ast.BlockStmt:
				r.block(e.List)
			case *ast.IfStmt:
				// an else-if is not in a statement list: descend without inserting before it
				r.elseIf(e)
			}
		}
	case *ast.ForStmt:
		r.lits(n.Init)
		r.litsExpr(n.Cond)
		r.lits(n.Post)
		r.loopYield(n.Body)
		r.block(n.Body.List)
	case *ast.RangeStmt:
		r.litsExpr(n.X)
		r.rangeStmt(n)
		if r.unownedMapRange(n) {
			// the runtime picks the iteration order here: no scheduling point inside the body,
			// so that the order cannot leak into the schedule (the body must not call back into
			// instrumented functions; reported if it does)
			r.quiet++
			r.block(n.Body.List)
			r.quiet--
		} else {
			if _, isMap := r.pkg.TypesInfo.TypeOf(n.X).Underlying().(*types.Map); !isMap {
				r.loopYield(n.Body) // (a rewritten map range gets its prologue at the same place: leave it alone)
			}
			r.block(n.Body.List)
		}
	case *ast.SwitchStmt:
		r.lits(n.Init)
		r.litsExpr(n.Tag)
		r.clauses(n.Body)
	case *ast.TypeSwitchStmt:
		r.lits(n.Init)
		r.lits(n.Assign)
		r.clauses(n.Body)
	case *ast.SelectStmt:
		r.clauses(n.Body)
	default:
		r.lits(inner)
	}
}

func (r *rewriter) elseIf(n *ast.IfStmt) {
	r.lits(n.Init)
	r.litsExpr(n.Cond)
	r.block(n.Body.List)
	if n.Else != nil {
		switch e := n.Else.(type) {
		case *ast.BlockStmt:
			r.block(e.List)
		case *ast.IfStmt:
			r.elseIf(e)
		}
	}
}

func (r *rewriter) clauses(b *ast.BlockStmt) {
	for _, c := range b.List {
		switch cc := c.(type) {
		case *ast.CaseClause:
			for _, e := range cc.List {
				r.litsExpr(e)
			}
			r.block(cc.Body)
		case *ast.CommClause:
			r.block(cc.Body)
		}
	}
}

// lits instruments the bodies of function literals inside a simple statement.
func (r *rewriter) lits(n ast.Node) {
	if n == nil || isNilNode(n) {
		return
	}
	ast.Inspect(n, func(x ast.Node) bool {
		if fl, ok := x.(*ast.FuncLit); ok {
			r.funcBody(fl.Body, r.fn+".func")
			return false
		}
		return true
	})
}

func (r *rewriter) litsExpr(e ast.Expr) {
	if e == nil {
		return
	}
	r.lits(e)
}

func isNilNode(n ast.Node) bool {
	switch v := n.(type) {
	case ast.Stmt:
		return v == nil
	case ast.Expr:
		return v == nil
	}
	return false
}

// isSyncMethod: sel selects a method whose receiver is one of the named sync
// types (also when promoted from an embedded field).
func (r *rewriter) isSyncMethod(sel *ast.SelectorExpr, names ...string) bool {
	s := r.pkg.TypesInfo.Selections[sel]
	if s == nil {
		return false
	}
	fn, ok := s.Obj().(*types.Func)
	if !ok {
		return false
	}
	sig, ok := fn.Type().(*types.Signature)
	if !ok || sig.Recv() == nil {
		return false
	}
	t := sig.Recv().Type()
	if p, ok := t.(*types.Pointer); ok {
		t = p.Elem()
	}
	n, ok := t.(*types.Named)
	if !ok || n.Obj().Pkg() == nil || n.Obj().Pkg().Path() != "sync" {
		return false
	}
	for _, want := range names {
		if n.Obj().Name() == want {
			return true
		}
	}
	return false
}

func (r *rewriter) isSyncLocker(x ast.Expr) bool {
	n, ok := r.pkg.TypesInfo.TypeOf(x).(*types.Named)
	return ok && n.Obj().Pkg() != nil && n.Obj().Pkg().Path() == "sync" && n.Obj().Name() == "Locker"
}

func (r *rewriter) isSyncMutex(x ast.Expr) bool {
	t := r.pkg.TypesInfo.TypeOf(x)
	if t == nil {
		return false
	}
	if p, ok := t.(*types.Pointer); ok {
		t = p.Elem()
	}
	n, ok := t.(*types.Named)
	if !ok || n.Obj().Pkg() == nil {
		return false
	}
	return n.Obj().Pkg().Path() == "sync" && (n.Obj().Name() == "Mutex" || n.Obj().Name() == "RWMutex")
}

// shallow returns the parts of a statement that execute "at" the statement
// itself (not its nested blocks).
func shallow(s ast.Stmt) []ast.Node {
	switch n := s.(type) {
	case *ast.BlockStmt, *ast.SelectStmt, *ast.EmptyStmt, *ast.BranchStmt:
		return nil
	case *ast.IfStmt:
		return nn(n.Init, n.Cond)
	case *ast.ForStmt:
		return nn(n.Init, n.Cond)
	case *ast.RangeStmt:
		return nn(n.X)
	case *ast.SwitchStmt:
		return nn(n.Init, n.Tag)
	case *ast.TypeSwitchStmt:
		return nn(n.Init, n.Assign)
	default:
		return []ast.Node{s}
	}
}

func nn(xs ...ast.Node) []ast.Node {
	var out []ast.Node
	for _, x := range xs {
		if x == nil {
			continue
		}
		switch v := x.(type) {
		case ast.Stmt:
			if v != nil {
				out = append(out, v)
			}
		case ast.Expr:
			if v != nil {
				out = append(out, v)
			}
		}
	}
	return out
}

// interesting decides whether a yield goes before s, and names the kind.
func (r *rewriter) interesting(s ast.Stmt) (kind, obj string) {
	info := r.pkg.TypesInfo
	for _, part := range shallow(s) {
		if part == nil {
			continue
		}
		func() {
			defer func() { recover() }() // typed-nil interface values inside nn()
			ast.Inspect(part, func(x ast.Node) bool {
				if kind == "sync" {
					return false
				}
				switch v := x.(type) {
				case *ast.FuncLit:
					return false
				case *ast.Ident:
					if o, ok := info.Uses[v].(*types.Var); ok && !o.IsField() && o.Pkg() != nil && o.Parent() == o.Pkg().Scope() {
						if kind == "" || kind == "store" {
							kind, obj = "global", o.Pkg().Name()+"."+o.Name()
						}
					}
				case *ast.CallExpr:
					if sel, ok := v.Fun.(*ast.SelectorExpr); ok {
						if selinfo, ok := info.Selections[sel]; ok {
							t := selinfo.Recv()
							if p, ok := t.(*types.Pointer); ok {
								t = p.Elem()
							}
							if n, ok := t.(*types.Named); ok && n.Obj().Pkg() != nil {
								if pp := n.Obj().Pkg().Path(); pp == "sync" || pp == "sync/atomic" {
									kind, obj = "sync", types.ExprString(sel.X)+"."+sel.Sel.Name
									return false
								}
							}
						} else if id, ok := sel.X.(*ast.Ident); ok {
							if pn, ok := info.Uses[id].(*types.PkgName); ok && pn.Imported().Path() == "sync/atomic" {
								kind, obj = "sync", "atomic."+sel.Sel.Name
								return false
							}
						}
					}
				}
				return true
			})
		}()
	}
	if kind != "" {
		return
	}
	// stores through pointer / field / index / map element
	isStoreTarget := func(e ast.Expr) bool {
		for {
			if p, ok := e.(*ast.ParenExpr); ok {
				e = p.X
				continue
			}
			break
		}
		switch e.(type) {
		case *ast.SelectorExpr, *ast.IndexExpr, *ast.StarExpr:
			return true
		}
		return false
	}
	switch n := s.(type) {
	case *ast.AssignStmt:
		for _, l := range n.Lhs {
			if isStoreTarget(l) {
				return "store", types.ExprString(l)
			}
		}
	case *ast.IncDecStmt:
		if isStoreTarget(n.X) {
			return "store", types.ExprString(n.X)
		}
	case *ast.ExprStmt:
		// delete(m, k) mutates a map
		if c, ok := n.X.(*ast.CallExpr); ok {
			if id, ok := c.Fun.(*ast.Ident); ok && id.Name == "delete" && len(c.Args) == 2 {
				if _, isBuiltin := info.Uses[id].(*types.Builtin); isBuiltin {
					return "store", "delete(" + types.ExprString(c.Args[0]) + ")"
				}
			}
		}
	}
	return "", ""
}

func (r *rewriter) unownedMapRange(n *ast.RangeStmt) bool {
	t := r.pkg.TypesInfo.TypeOf(n.X)
	if t == nil {
		return false
	}
	m, ok := t.Underlying().(*types.Map)
	if !ok || orderedKey(m.Key()) || n.Key == nil {
		return false
	}
	// does the body call functions of the instrumented module?
	ast.Inspect(n.Body, func(x ast.Node) bool {
		call, ok := x.(*ast.CallExpr)
		if !ok {
			return true
		}
		var obj types.Object
		switch f := call.Fun.(type) {
		case *ast.Ident:
			obj = r.pkg.TypesInfo.Uses[f]
		case *ast.SelectorExpr:
			obj = r.pkg.TypesInfo.Uses[f.Sel]
		}
		if fn, ok := obj.(*types.Func); ok && fn.Pkg() != nil && strings.HasPrefix(fn.Pkg().Path(), modPath) {
			fmt.Fprintf(os.Stderr, "warning: body of a map range with unordered keys calls %s at %s: its scheduling points depend on the runtime's iteration order\n", fn.FullName(), r.fset.Position(call.Pos()))
		}
		return true
	})
	return true
}

func orderedKey(t types.Type) bool {
	b, ok := t.Underlying().(*types.Basic)
	if !ok {
		return false
	}
	return b.Info()&(types.IsString|types.IsInteger|types.IsFloat) != 0
}

func (r *rewriter) rangeStmt(n *ast.RangeStmt) {
	if !*doMaps {
		return
	}
	t := r.pkg.TypesInfo.TypeOf(n.X)
	if t == nil {
		return
	}
	m, ok := t.Underlying().(*types.Map)
	if !ok {
		return
	}
	if !orderedKey(m.Key()) {
		r.stats["map-unordered-key"]++
		fmt.Fprintf(os.Stderr, "note: map range left to the runtime (key %s) at %s\n", m.Key(), r.fset.Position(n.Pos()))
		return
	}
	if n.Key == nil {
		return // `for range m`: order is unobservable
	}
	isBlank := func(e ast.Expr) bool {
		if e == nil {
			return true
		}
		id, ok := e.(*ast.Ident)
		return ok && id.Name == "_"
	}
	r.zzn++
	ent := fmt.Sprintf("zze%d", r.zzn)
	okv := fmt.Sprintf("zzok%d", r.zzn)
	id := newSite(r.fset, n.Pos(), "maprange", r.fn, types.ExprString(n.X))
	header := fmt.Sprintf("for _, %s := range zzsimrt.Entries(%s, %d) {", ent, r.text(n.X), id)
	var pro string
	kexpr := ent + ".K"
	if n.Tok == token.DEFINE {
		switch {
		case !isBlank(n.Key) && !isBlank(n.Value):
			pro = fmt.Sprintf(" %s := %s; %s, %s := %s.M[%s]; if !%s { continue }; ", r.text(n.Key), kexpr, r.text(n.Value), okv, ent, r.text(n.Key), okv)
		case !isBlank(n.Key):
			pro = fmt.Sprintf(" %s := %s; if _, %s := %s.M[%s]; !%s { continue }; ", r.text(n.Key), kexpr, okv, ent, r.text(n.Key), okv)
		case !isBlank(n.Value):
			pro = fmt.Sprintf(" %s, %s := %s.M[%s]; if !%s { continue }; ", r.text(n.Value), okv, ent, kexpr, okv)
		default:
			return
		}
	} else { // token.ASSIGN: loop variables are existing variables
		switch {
		case !isBlank(n.Key) && !isBlank(n.Value):
			pro = fmt.Sprintf(" zzv%d, %s := %s.M[%s]; if !%s { continue }; %s = %s; %s = zzv%d; ", r.zzn, okv, ent, kexpr, okv, r.text(n.Key), kexpr, r.text(n.Value), r.zzn)
		case !isBlank(n.Key):
			pro = fmt.Sprintf(" if _, %s := %s.M[%s]; !%s { continue }; %s = %s; ", okv, ent, kexpr, okv, r.text(n.Key), kexpr)
		case !isBlank(n.Value):
			pro = fmt.Sprintf(" zzv%d, %s := %s.M[%s]; if !%s { continue }; %s = zzv%d; ", r.zzn, okv, ent, kexpr, okv, r.text(n.Value), r.zzn)
		default:
			return
		}
	}
	r.replace(n.For, n.Body.Lbrace+1, header+pro)
	r.stats["maprange"]++
}
