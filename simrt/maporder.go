package zzsimrt

import (
	"cmp"
	"os"
	"slices"
	"strconv"
)

// Entry is one element of a map iteration whose order the simulator decides.
// M is the map itself, so that the loop body observes deletions and updates
// made during iteration exactly as a native range would.
type Entry[M any, K any] struct {
	K K
	M M
}

// MapPermSeed selects the map-order policy: 0 iterates in sorted key order
// (every run bit-reproducible even where output depends on iteration order);
// any other value applies a permutation derived from (seed, site, visit
// number), which makes order-dependence an explored, replayable dimension.
var MapPermSeed uint64

var mapVisits []uint32

// MapRanges counts rewritten map iterations executed (reach probe).
var MapRanges uint64

//go:norace
func permIndex(site int, n int) []int {
	MapRanges++
	if MapPermSeed == 0 || n < 2 {
		return nil
	}
	if site < 0 || site >= len(mapVisits) {
		return nil // (the table is sized by ResetMapOrder; never grown here: copy/append carry race-detector hooks)
	}
	mapVisits[site]++
	x := MapPermSeed ^ uint64(site)*0x9e3779b97f4a7c15 ^ uint64(mapVisits[site])*0xbf58476d1ce4e5b9
	next := func() uint64 {
		x += 0x9e3779b97f4a7c15
		z := x
		z = (z ^ (z >> 30)) * 0xbf58476d1ce4e5b9
		z = (z ^ (z >> 27)) * 0x94d049bb133111eb
		return z ^ (z >> 31)
	}
	p := make([]int, n)
	for i := range p {
		p[i] = i
	}
	for i := n - 1; i > 0; i-- {
		j := int(next() % uint64(i+1))
		p[i], p[j] = p[j], p[i]
	}
	return p
}

// ResetMapOrder sets the policy for the next run.
//
//go:norace
func ResetMapOrder(seed uint64) {
	MapPermSeed = seed
	if len(mapVisits) < len(Sites)+1 {
		mapVisits = make([]uint32, len(Sites)+1) // called by the harness only, outside the concurrent phase
	}
	for i := range mapVisits {
		mapVisits[i] = 0
	}
}

// Entries returns the iteration order for `for k, v := range m` at site.
func Entries[M ~map[K]V, K cmp.Ordered, V any](m M, site int) []Entry[M, K] {
	if len(m) == 0 {
		return nil
	}
	keys := make([]K, 0, len(m))
	for k := range m {
		keys = append(keys, k)
	}
	slices.Sort(keys)
	out := make([]Entry[M, K], len(keys))
	if p := permIndex(site, len(keys)); p != nil {
		for i, j := range p {
			out[i] = Entry[M, K]{keys[j], m}
		}
		return out
	}
	for i, k := range keys {
		out[i] = Entry[M, K]{k, m}
	}
	return out
}

func init() {
	// Only for validating the instrumenter against the repository's own tests
	// (DESIGN.md §2.1): ZZSIM_MAPSEED=n runs them under a permuted map order.
	if s := os.Getenv("ZZSIM_MAPSEED"); s != "" {
		if v, err := strconv.ParseUint(s, 10, 64); err == nil {
			MapPermSeed = v
		}
	}
}
