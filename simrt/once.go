package zzsimrt

import "sync"

// sync.Once under the scheduler. A caller that finds a Once being run by
// another caller would block inside sync.Once.Do, holding the turn for ever
// (the runner is parked at one of its scheduling points). OnceDo keeps the
// real Once - its atomics are the happens-before edge the race detector must
// see - and makes only the waiting cooperative: who is running which Once is
// kept in a side table, and a waiter gives the turn away until the runner is
// through, then goes through the real Do, which returns at once.
//
// The table holds the *sync.Once itself, so an address cannot be reused for
// another Once while a run lasts. It is a fixed array searched linearly:
// scheduler state is touched by //go:norace code only, and the runtime's map
// and slice-growth paths carry race-detector hooks.

const maxOnce = 256

type onceEntry struct {
	o     *sync.Once
	state int32 // 0 unknown, 1 being run, 2 through
	owner int
}

var (
	onceTab [maxOnce]onceEntry
	onceN   int
	// OnceFallbacks counts Do calls that went to the real Once uncooperatively (table full).
	OnceFallbacks uint64
	// OnceWaits counts waits on a Once that another caller was running.
	OnceWaits uint64
)

//go:norace
func onceReset() {
	for i := 0; i < onceN; i++ {
		onceTab[i].o = nil
		onceTab[i].state = 0
		onceTab[i].owner = 0
	}
	onceN = 0
	OnceFallbacks = 0
	OnceWaits = 0
}

//go:norace
func onceSlot(o *sync.Once) int {
	for i := 0; i < onceN; i++ {
		if onceTab[i].o == o {
			return i
		}
	}
	if onceN == maxOnce {
		// forget the ones that are through (a later Do on one of them goes through the real Once, which
		// returns at once); only those being run must be remembered
		k := 0
		for i := 0; i < onceN; i++ {
			if onceTab[i].state == 1 {
				onceTab[k].o = onceTab[i].o
				onceTab[k].state = 1
				onceTab[k].owner = onceTab[i].owner
				k++
			}
		}
		for i := k; i < onceN; i++ {
			onceTab[i].o = nil
			onceTab[i].state = 0
		}
		onceN = k
		if onceN == maxOnce {
			return -1
		}
	}
	onceTab[onceN].o = o
	onceTab[onceN].state = 0
	onceN++
	return onceN - 1
}

//go:norace
func onceFind(o *sync.Once) int {
	for i := 0; i < onceN; i++ {
		if onceTab[i].o == o {
			return i
		}
	}
	return -1
}

//go:norace
func onceThrough(o *sync.Once) {
	if i := onceFind(o); i >= 0 {
		onceTab[i].state = 2
	}
}

// OnceDo is o.Do(f) with a scheduling point in front and cooperative waiting.
//
//go:norace
func OnceDo(site int, o *sync.Once, f func()) {
	Yield(site)
	if !simActive || gs[cur].goid != goid() {
		o.Do(f)
		return
	}
	for {
		// (looked up afresh each time round: other callers may have compacted the table meanwhile)
		i := onceFind(o)
		if i < 0 || onceTab[i].state != 1 {
			break
		}
		// (a caller waiting for itself - Do called from inside f - never gets out, like the real thing:
		// the deadlock detector reports it)
		OnceWaits++
		YieldBlocked(site)
	}
	i := onceSlot(o)
	if i < 0 {
		OnceFallbacks++
		o.Do(f)
		return
	}
	if onceTab[i].state == 2 {
		o.Do(f)
		return
	}
	onceTab[i].state = 1
	onceTab[i].owner = cur
	// through as soon as f has returned or panicked; nothing instrumented runs between that and the real
	// Once recording it, so no other caller can get in between
	defer onceThrough(o)
	o.Do(f)
}

// OnceFunc, OnceValue and OnceValues are sync.OnceFunc, sync.OnceValue and
// sync.OnceValues (same contract, including the replay of a panic) over OnceDo.
func OnceFunc(site int, f func()) func() {
	var (
		once  sync.Once
		valid bool
		p     any
	)
	g := func() {
		defer func() {
			p = recover()
			if !valid {
				panic(p)
			}
		}()
		f()
		f = nil
		valid = true
	}
	return func() {
		OnceDo(site, &once, g)
		if !valid {
			panic(p)
		}
	}
}

func OnceValue[T any](site int, f func() T) func() T {
	var (
		once   sync.Once
		valid  bool
		p      any
		result T
	)
	g := func() {
		defer func() {
			p = recover()
			if !valid {
				panic(p)
			}
		}()
		result = f()
		f = nil
		valid = true
	}
	return func() T {
		OnceDo(site, &once, g)
		if !valid {
			panic(p)
		}
		return result
	}
}

func OnceValues[T1, T2 any](site int, f func() (T1, T2)) func() (T1, T2) {
	var (
		once  sync.Once
		valid bool
		p     any
		r1    T1
		r2    T2
	)
	g := func() {
		defer func() {
			p = recover()
			if !valid {
				panic(p)
			}
		}()
		r1, r2 = f()
		f = nil
		valid = true
	}
	return func() (T1, T2) {
		OnceDo(site, &once, g)
		if !valid {
			panic(p)
		}
		return r1, r2
	}
}
