package zzsimrt

import (
	"runtime"
	"sync/atomic"
	"syscall"
	"time"
	"unsafe"
)

// The scheduler serialises the simulated caller goroutines: exactly one holds
// the turn; the others are parked on a private futex word each. Hand-off uses
// raw futex system calls and plain loads/stores, and every function that
// touches scheduler state is //go:norace, so the race detector sees no
// happens-before edge between simulated callers other than the ones the
// library's own synchronisation creates (DESIGN.md §2.2).

// Site describes one instrumentation site (generated table in sites_gen.go).
type Site struct {
	File string
	Line int
	Kind string
	Func string
	Obj  string
}

var Sites []Site

// LibraryStartsGoroutines is set by the generated site table when the library
// has `go` statements of its own: every scheduling point then checks that it is
// the turn holder who reached it (otherwise the check is sampled, as a safety net).
var LibraryStartsGoroutines bool

const MaxG = 16

const maxTrace = 1 << 17

// Switch is one scheduling decision in explicit form.
type Switch struct {
	Step uint64 `json:"s"` // global yield index at which the decision applies
	To   int    `json:"t"` // goroutine that runs next
}

// Policy is how a schedule is produced. Kind "explicit" replays Switches and
// consults no PRNG; the other kinds draw from a private PRNG seeded with Seed
// and the resulting decisions are recorded in explicit form.
type Policy struct {
	Kind     string   `json:"kind"`               // explicit | random | biased | pct | rr | serial
	Seed     uint64   `json:"seed,omitempty"`     //
	PNum     int      `json:"p_num,omitempty"`    // random: switch with probability PNum/PDen at each yield
	PDen     int      `json:"p_den,omitempty"`    //
	HotNum   int      `json:"hot_num,omitempty"`  // biased: switch probability HotNum/HotDen at sites that touch shared state
	HotDen   int      `json:"hot_den,omitempty"`  //          (package-level variables, sync calls, locks); PNum/PDen elsewhere
	Quantum  int      `json:"quantum,omitempty"`  // rr: yields per turn
	Depth    int      `json:"depth,omitempty"`    // pct: number of priority change points + 1
	Horizon  int      `json:"horizon,omitempty"`  // pct: change points are placed in [0,Horizon)
	Switches []Switch `json:"switches,omitempty"` // explicit
	StepCap  uint64   `json:"step_cap,omitempty"` // after this many yields no more switches happen
}

// TraceEntry is one context switch that happened.
type TraceEntry struct {
	Step     uint64
	From, To int
	FromSite int // site at which From was stopped (-1: exit)
	ToSite   int // site at which To had been parked (-2: not started yet)
}

type gstate struct {
	word    uint32 // futex word: 1 = has the turn
	goid    uint64 // runtime id of the goroutine registered as this caller
	started bool
	done    bool
	blocked bool
	soft    bool // the wait in progress is one that time may end (channel, select, condition)
	site    int
	prio    int
	yields  uint64
	_       [40]byte
}

var (
	simActive     bool
	cur           int
	ng            int
	gs            [MaxG]gstate
	step          uint64
	pol           Policy
	polIdx        int
	rng           uint64
	quantLeft     int
	changeAt      []uint64
	trace         []TraceEntry
	blockedStreak int
	blockedSince  int64  // wall time (ns) at which the current streak of failed tries began
	seqSpins      uint64 // failed lock tries in a row outside a simulation (sequential phases)
	seqSince      int64
	overrun       bool
	deadlock      bool
	lockWaits     uint64
	siteHits      []uint32
	hotSite       []bool

	// OnDeadlock is called (on the goroutine that detects it) when every live
	// goroutine is spinning on a library lock. It must not return.
	OnDeadlock func(sites []int)

	// unmanaged counts scheduling points reached by goroutines the scheduler does
	// not know (a library that starts goroutines of its own): they run free.
	unmanaged uint64
)

// goid parses the current goroutine's id out of a small stack dump.
//
//go:norace
func goid() uint64 {
	var buf [40]byte
	n := runtime.Stack(buf[:], false)
	// "goroutine 123 [running]:..."
	var id uint64
	for i := len("goroutine "); i < n; i++ {
		c := buf[i]
		if c < '0' || c > '9' {
			break
		}
		id = id*10 + uint64(c-'0')
	}
	return id
}

const (
	sysFutex         = 202 // linux/amd64
	futexWaitPrivate = 128 | 0
	futexWakePrivate = 128 | 1
)

//go:norace
func futexWait(addr *uint32, val uint32) {
	syscall.Syscall6(sysFutex, uintptr(unsafe.Pointer(addr)), futexWaitPrivate, uintptr(val), 0, 0, 0)
}

//go:norace
func futexWake(addr *uint32) {
	syscall.Syscall6(sysFutex, uintptr(unsafe.Pointer(addr)), futexWakePrivate, 1, 0, 0, 0)
}

//go:norace
func rnd() uint64 {
	rng ^= rng >> 12
	rng ^= rng << 25
	rng ^= rng >> 27
	return rng * 2685821657736338717
}

// Begin arms the scheduler for n goroutines. It is called by the harness
// before it starts them with ordinary `go` statements.
//
//go:norace
func Begin(n int, p Policy) {
	if n > MaxG {
		n = MaxG
	}
	ng = n
	pol = p
	polIdx = 0
	step = 0
	if cap(trace) < maxTrace {
		trace = make([]TraceEntry, 0, maxTrace) // never grown while callers run: append's growth path carries race-detector hooks
	}
	trace = trace[:0]
	blockedStreak = 0
	overrun = false
	deadlock = false
	lockWaits = 0
	unmanaged = 0
	onceReset()
	rng = p.Seed*2862933555777941757 + 3037000493
	if rng == 0 {
		rng = 88172645463325252
	}
	if pol.StepCap == 0 {
		pol.StepCap = 200000
	}
	if len(siteHits) < len(Sites) {
		siteHits = make([]uint32, len(Sites))
	} else {
		for i := range siteHits {
			siteHits[i] = 0
		}
	}
	if len(hotSite) != len(Sites) {
		hotSite = make([]bool, len(Sites))
		for i, st := range Sites {
			switch st.Kind {
			case "global", "sync", "lock", "once":
				hotSite[i] = true
			}
		}
	}
	for i := 0; i < MaxG; i++ {
		gs[i] = gstate{site: -2}
	}
	changeAt = changeAt[:0]
	switch pol.Kind {
	case "pct":
		perm := make([]int, n)
		for i := range perm {
			perm[i] = i
		}
		for i := n - 1; i > 0; i-- {
			j := int(rnd() % uint64(i+1))
			perm[i], perm[j] = perm[j], perm[i]
		}
		for i := 0; i < n; i++ {
			gs[perm[i]].prio = pol.Depth + i // all above the change-point priorities
		}
		h := pol.Horizon
		if h <= 0 {
			h = 1000
		}
		for d := 1; d < pol.Depth; d++ {
			changeAt = append(changeAt, rnd()%uint64(h))
		}
	case "rr":
		if pol.Quantum <= 0 {
			pol.Quantum = 1
		}
		quantLeft = pol.Quantum
	}
	// first goroutine to run
	first := 0
	switch pol.Kind {
	case "explicit":
		if len(pol.Switches) > 0 && pol.Switches[0].Step == 0 {
			first = pol.Switches[0].To
			polIdx = 1
		}
	case "random", "biased":
		first = int(rnd() % uint64(n))
	case "pct":
		first = highestPrio(-1)
	}
	if first < 0 || first >= n {
		first = 0
	}
	cur = first
	record(TraceEntry{Step: 0, From: -1, To: first, FromSite: -1, ToSite: -2})
	gs[first].word = 1
	simActive = true
}

// record appends to the preallocated trace; when it is full no further switches
// are recorded and the run is marked as overrun (inconclusive).
//
//go:norace
func record(t TraceEntry) {
	if len(trace) < cap(trace) {
		trace = trace[:len(trace)+1]
		trace[len(trace)-1] = t
		return
	}
	overrun = true
}

//go:norace
func highestPrio(except int) int {
	best, bi := -1<<30, -1
	for i := 0; i < ng; i++ {
		if i == except || gs[i].done {
			continue
		}
		if gs[i].prio > best {
			best, bi = gs[i].prio, i
		}
	}
	return bi
}

// nextRunnable returns the first live goroutine after from (cyclically),
// preferring ones that are not spinning on a lock; -1 if none but from itself.
//
//go:norace
func nextRunnable(from int, allowBlocked bool) int {
	for k := 1; k <= ng; k++ {
		i := (from + k) % ng
		if i == from || gs[i].done {
			continue
		}
		if gs[i].blocked && !allowBlocked {
			continue
		}
		return i
	}
	return -1
}

// firstLive returns the first goroutine that is not done, scanning start,
// start+1, ... cyclically; -1 if there is none.
//
//go:norace
func firstLive(start int) int {
	for k := 0; k < ng; k++ {
		i := (start + k) % ng
		if i < 0 {
			i += ng
		}
		if !gs[i].done {
			return i
		}
	}
	return -1
}

//go:norace
func park(i int) {
	for gs[i].word == 0 {
		futexWait(&gs[i].word, 0)
	}
	gs[i].word = 0
}

// Enter is the first thing simulated caller i does.
//
//go:norace
func Enter(i int) {
	if !simActive || i < 0 || i >= ng {
		return
	}
	gs[i].goid = goid()
	park(i)
	gs[i].started = true
}

// Exit is the last thing simulated caller i does: it hands the turn on.
//
//go:norace
func Exit(i int) {
	if !simActive || i != cur {
		return
	}
	gs[i].done = true
	gs[i].blocked = false
	step++
	next := -1
	switch pol.Kind {
	case "explicit":
		for polIdx < len(pol.Switches) && pol.Switches[polIdx].Step < step {
			polIdx++
		}
		if polIdx < len(pol.Switches) && pol.Switches[polIdx].Step == step {
			next = pol.Switches[polIdx].To
			polIdx++
		}
	case "random", "biased":
		k := int(rnd() % uint64(ng))
		next = k
	case "pct":
		next = highestPrio(i)
	}
	if next < 0 || next >= ng || gs[next].done {
		start := i + 1
		if next >= 0 && next < ng {
			start = next
		}
		next = firstLive(start)
	}
	if next < 0 {
		return // everyone is done
	}
	record(TraceEntry{Step: step, From: i, To: next, FromSite: -1, ToSite: gs[next].site})
	quantLeft = pol.Quantum
	cur = next
	gs[next].word = 1
	futexWake(&gs[next].word)
}

//go:norace
func switchTo(next int, site int) {
	prev := cur
	gs[prev].site = site
	record(TraceEntry{Step: step, From: prev, To: next, FromSite: site, ToSite: gs[next].site})
	cur = next
	gs[next].word = 1
	futexWake(&gs[next].word)
	park(prev)
}

// Yield is a scheduling point inserted by the instrumenter. Outside a
// simulation it is one load and a return.
//
//go:norace
func Yield(site int) {
	if !simActive {
		seqSpins = 0
		if CountSteps {
			// (atomic: a library that fetches in parallel reaches this from several goroutines)
			if n := atomic.AddUint64(&Steps, 1); StepLimit > 0 && n > StepLimit {
				atomic.StoreUint64(&Steps, 0)
				panic(StepBudgetExceeded{StepLimit})
			}
		}
		return
	}
	yield(site)
}

// CountSteps makes Yield count executed instrumentation sites in sequential
// simulations, so that "terminates" can be stated as a step budget: when
// Steps passes StepLimit the running call is aborted with a panic carrying
// StepBudgetExceeded.
var (
	CountSteps bool
	Steps      uint64
	StepLimit  uint64
)

type StepBudgetExceeded struct{ Limit uint64 }

//go:norace
func yield(site int) {
	g := cur
	if (LibraryStartsGoroutines || step&31 == 0) && gs[g].goid != goid() {
		// (sampled: the id lookup costs about as much as thirty scheduling points)
		unmanaged++ // not the caller that holds the turn: a goroutine the library started itself
		return
	}
	gs[g].blocked = false
	gs[g].soft = false
	gs[g].yields++
	blockedStreak = 0
	step++
	if site >= 0 && site < len(siteHits) {
		siteHits[site]++
	}
	if step > pol.StepCap {
		overrun = true
		return
	}
	next := -1
	switch pol.Kind {
	case "explicit":
		for polIdx < len(pol.Switches) && pol.Switches[polIdx].Step < step {
			polIdx++
		}
		if polIdx < len(pol.Switches) && pol.Switches[polIdx].Step == step {
			next = pol.Switches[polIdx].To
			polIdx++
		}
	case "random":
		if pol.PDen > 0 && int(rnd()%uint64(pol.PDen)) < pol.PNum {
			next = int(rnd() % uint64(ng))
		}
	case "biased":
		num, den := pol.PNum, pol.PDen
		if site >= 0 && site < len(hotSite) && hotSite[site] {
			num, den = pol.HotNum, pol.HotDen
		}
		if den > 0 && int(rnd()%uint64(den)) < num {
			next = int(rnd() % uint64(ng))
		}
	case "rr":
		quantLeft--
		if quantLeft <= 0 {
			quantLeft = pol.Quantum
			next = nextRunnable(g, true)
		}
	case "pct":
		for d, at := range changeAt {
			if at == step {
				gs[g].prio = pol.Depth - 1 - d // drop below everything not yet dropped
			}
		}
		next = highestPrio(-1)
	}
	if next < 0 || next >= ng || next == g {
		return
	}
	if gs[next].done {
		next = nextRunnable(next, true)
		if next < 0 || next == g {
			return
		}
	}
	switchTo(next, site)
}

// YieldBlocked is called in place of blocking when a TryLock on a library
// mutex failed: the turn goes to somebody else, who may release the lock.
//
//go:norace
func YieldBlocked(site int) { yieldBlocked(site, false) }

// YieldWaiting is YieldBlocked for waits that something other than a caller may
// end (a channel a timer will feed, a condition, a select): the turn goes to
// somebody else in the same way, but when every live caller is waiting this is
// a deadlock only if it lasts (two seconds of wall time); alone, the caller lets
// a little time pass between tries.
//
//go:norace
func YieldWaiting(site int) { yieldBlocked(site, true) }

//go:norace
func yieldBlocked(site int, soft bool) {
	if !simActive {
		// outside a simulation the TryLock loop degrades to a spin; be polite. A lock that a finished call
		// never released shows here as a spin without end (nobody else is running): after two seconds of
		// it with no scheduling point passed in between, that is reported like any other deadlock.
		if !soft && !LibraryStartsGoroutines {
			if seqSpins == 0 {
				seqSince = time.Now().UnixNano()
			}
			seqSpins++
			if seqSpins&1023 == 0 && time.Now().UnixNano()-seqSince > 2_000_000_000 && OnDeadlock != nil {
				OnDeadlock([]int{site})
			}
		}
		syscall.Syscall(syscall.SYS_SCHED_YIELD, 0, 0, 0)
		return
	}
	g := cur
	if gs[g].goid != goid() {
		unmanaged++
		syscall.Syscall(syscall.SYS_SCHED_YIELD, 0, 0, 0)
		return
	}
	gs[g].blocked = true
	lockWaits++
	if LibraryStartsGoroutines || unmanaged > 0 {
		// what the caller waits for may be held by a goroutine of the library's own, which runs in real
		// time: failed tries prove nothing. Let it run; a wait that never ends shows as no progress
		// (progress watchdog: the run cannot be decided), never as a deadlock verdict.
		next := nextRunnable(g, false)
		if next < 0 {
			next = nextRunnable(g, true)
		}
		if next < 0 {
			syscall.Syscall(syscall.SYS_SCHED_YIELD, 0, 0, 0)
			return
		}
		step++
		switchTo(next, site)
		return
	}
	gs[g].soft = soft
	if blockedStreak == 0 {
		blockedSince = time.Now().UnixNano()
	}
	blockedStreak++
	if blockedStreak > 4*ng+4 {
		anySoft := false
		for i := 0; i < ng; i++ {
			if !gs[i].done && gs[i].soft {
				anySoft = true
			}
		}
		if anySoft && time.Now().UnixNano()-blockedSince < 2_000_000_000 {
			// somebody waits for something time may bring: not a verdict yet
			ts := syscall.Timespec{Nsec: 50_000}
			syscall.Nanosleep(&ts, nil)
			next := nextRunnable(g, false)
			if next < 0 {
				next = nextRunnable(g, true)
			}
			if next < 0 {
				return
			}
			step++
			switchTo(next, site)
			return
		}
		deadlock = true
		var at []int
		for i := 0; i < ng; i++ {
			if !gs[i].done {
				at = append(at, gs[i].site)
			}
		}
		at = append(at, site)
		if OnDeadlock != nil {
			OnDeadlock(at)
		}
		panic("zzsimrt: deadlock among library locks")
	}
	next := nextRunnable(g, false)
	if next < 0 {
		next = nextRunnable(g, true)
	}
	if next < 0 {
		// alone and blocked on something nobody live holds
		if !soft {
			blockedStreak += ng
		}
		return
	}
	step++
	switchTo(next, site)
}

// Stats of the simulation that just ended.
type Stats struct {
	Steps        uint64
	Switches     int
	LockWaits    uint64
	Overrun      bool
	Trace        []TraceEntry
	YieldsPerG   []uint64
	SitesCovered int
	Unmanaged    uint64 // scheduling points reached by goroutines the scheduler does not manage
	OnceWaits    uint64 // waits for a sync.Once another caller was running
	OnceFallback uint64 // sync.Once calls left to the real, blocking implementation
}

// StepNow is the number of scheduling points passed so far (for a progress
// watchdog on an unmanaged goroutine; the value may be stale).
//
//go:norace
func StepNow() uint64 { return step }

// End disarms the scheduler (called by the harness after joining the callers)
// and returns what happened.
//
//go:norace
func End() Stats {
	simActive = false
	st := Stats{Steps: step, Switches: len(trace), LockWaits: lockWaits, Overrun: overrun, Unmanaged: unmanaged, OnceWaits: OnceWaits, OnceFallback: OnceFallbacks}
	st.Trace = append([]TraceEntry(nil), trace...)
	for i := 0; i < ng; i++ {
		st.YieldsPerG = append(st.YieldsPerG, gs[i].yields)
	}
	for _, h := range siteHits {
		if h > 0 {
			st.SitesCovered++
		}
	}
	return st
}

// SiteHits returns the per-site hit counters of the last simulation.
//
//go:norace
func SiteHits() []uint32 { return append([]uint32(nil), siteHits...) }

// Explicit converts a trace into the explicit schedule that reproduces it.
func Explicit(tr []TraceEntry, stepCap uint64) Policy {
	p := Policy{Kind: "explicit", StepCap: stepCap}
	for _, t := range tr {
		p.Switches = append(p.Switches, Switch{Step: t.Step, To: t.To})
	}
	return p
}
