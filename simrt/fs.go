// Package zzsimrt is the simulation runtime that the instrumenter copies into
// a scratch copy of kin-openapi (as github.com/getkin/kin-openapi/zzsimrt) and
// to which it redirects the library's sources of nondeterminism: file-system
// reads, map iteration order, and (under a simulation) goroutine scheduling.
// Outside a simulation every entry point degrades to the real thing.
package zzsimrt

import (
	"bytes"
	"io"
	"io/fs"
	"os"
	"path/filepath"
	"time"
)

// ReadFileFunc, when set, serves os.ReadFile calls made by the library.
// handled=false falls through to the real file system.
var ReadFileFunc func(name string) (data []byte, err error, handled bool)

// StdinReader, when set, replaces os.Stdin for the library.
var StdinReader io.Reader

func ReadFile(name string) ([]byte, error) {
	if f := ReadFileFunc; f != nil {
		if data, err, ok := f(name); ok {
			return data, err
		}
	}
	return os.ReadFile(name)
}

// Stdin returns what the library should read as standard input.
func Stdin() io.Reader {
	if StdinReader != nil {
		return StdinReader
	}
	return os.Stdin
}

// File is what the library gets from Open: the simulated file's content, or the
// real file when no simulation serves the name.
type File struct {
	name string
	data *bytes.Reader
	size int64
	real *os.File
}

// Open is os.Open through the same seam as ReadFile (the open is the read
// event: that is when the simulated storage decides what the file holds).
func Open(name string) (*File, error) {
	if f := ReadFileFunc; f != nil {
		if data, err, ok := f(name); ok {
			if err != nil {
				return nil, &fs.PathError{Op: "open", Path: name, Err: err}
			}
			return &File{name: name, data: bytes.NewReader(data), size: int64(len(data))}, nil
		}
	}
	rf, err := os.Open(name)
	if err != nil {
		return nil, err
	}
	return &File{name: name, real: rf}, nil
}

func (f *File) Read(p []byte) (int, error) {
	if f.real != nil {
		return f.real.Read(p)
	}
	return f.data.Read(p)
}

func (f *File) Close() error {
	if f.real != nil {
		return f.real.Close()
	}
	return nil
}

func (f *File) Name() string { return f.name }

func (f *File) Stat() (fs.FileInfo, error) {
	if f.real != nil {
		return f.real.Stat()
	}
	return simInfo{f.name, f.size}, nil
}

// Stat and Lstat ask the storage for the file (a read event like any other).
func Stat(name string) (fs.FileInfo, error) {
	if f := ReadFileFunc; f != nil {
		if data, err, ok := f(name); ok {
			if err != nil {
				return nil, &fs.PathError{Op: "stat", Path: name, Err: err}
			}
			return simInfo{name, int64(len(data))}, nil
		}
	}
	return os.Stat(name)
}

func Lstat(name string) (fs.FileInfo, error) { return Stat(name) }

type simInfo struct {
	name string
	size int64
}

func (i simInfo) Name() string       { return filepath.Base(i.name) }
func (i simInfo) Size() int64        { return i.size }
func (i simInfo) Mode() fs.FileMode  { return 0o644 }
func (i simInfo) ModTime() time.Time { return time.Time{} }
func (i simInfo) IsDir() bool        { return false }
func (i simInfo) Sys() any           { return nil }
