// Package zzsimrt is the simulation runtime that the instrumenter copies into
// a scratch copy of kin-openapi (as github.com/getkin/kin-openapi/zzsimrt) and
// to which it redirects the library's sources of nondeterminism: file-system
// reads, map iteration order, and (under a simulation) goroutine scheduling.
// Outside a simulation every entry point degrades to the real thing.
package zzsimrt

import (
	"io"
	"os"
)

// ReadFileFunc, when set, serves os.ReadFile calls made by the library.
// handled=false falls through to the real file system.
var ReadFileFunc func(name string) (data []byte, err error, handled bool)

// StdinReader, when set, replaces os.Stdin for the library.
var StdinReader io.Reader

func ReadFile(name string) ([]byte, error) {
	if f := ReadFileFunc; f != nil {
		if data, err, ok := f(name); ok {
			return data, err
		}
	}
	return os.ReadFile(name)
}

// Stdin returns what the library should read as standard input.
func Stdin() io.Reader {
	if StdinReader != nil {
		return StdinReader
	}
	return os.Stdin
}
