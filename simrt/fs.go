// Package zzsimrt is the simulation runtime that the instrumenter copies into
// a scratch copy of kin-openapi (as github.com/getkin/kin-openapi/zzsimrt) and
// to which it redirects the library's sources of nondeterminism: file-system
// reads, map iteration order, and (under a simulation) goroutine scheduling.
// Outside a simulation every entry point degrades to the real thing.
package zzsimrt

import (
	"io"
	"io/fs"
	"os"
	"path/filepath"
	"time"
)

// ReadFileFunc, when set, serves os.ReadFile calls made by the library.
// handled=false falls through to the real file system.
var ReadFileFunc func(name string) (data []byte, err error, handled bool)

// StdinReader, when set, replaces os.Stdin for the library.
var StdinReader io.Reader

func ReadFile(name string) ([]byte, error) {
	if f := ReadFileFunc; f != nil {
		if data, err, ok := f(name); ok {
			return data, err
		}
	}
	return os.ReadFile(name)
}

// Stdin returns what the library should read as standard input: os.Stdin, or
// (under a simulation) a real file holding what the simulator feeds, so that
// code treating it as the *os.File it is (Stat, Fd, Name) compiles and works.
func Stdin() *os.File {
	if StdinReader == nil {
		return os.Stdin
	}
	data, _ := io.ReadAll(StdinReader)
	tf, err := os.CreateTemp("", "zzsim-stdin-*")
	if err != nil {
		return os.Stdin
	}
	os.Remove(tf.Name())
	tf.Write(data)
	tf.Seek(0, io.SeekStart)
	return tf
}

// Open is os.Open through the same seam as ReadFile (the open is the read
// event: that is when the simulated storage decides what the file holds). The
// library gets a real *os.File - an unlinked temporary file holding the simulated
// content - so that code naming the type, seeking or stat-ing it compiles and
// behaves as with any file.
func Open(name string) (*os.File, error) {
	if f := ReadFileFunc; f != nil {
		if data, err, ok := f(name); ok {
			if err != nil {
				return nil, &fs.PathError{Op: "open", Path: name, Err: err}
			}
			tf, terr := os.CreateTemp("", "zzsim-open-*")
			if terr != nil {
				return nil, &fs.PathError{Op: "open", Path: name, Err: terr}
			}
			os.Remove(tf.Name())
			if _, werr := tf.Write(data); werr != nil {
				tf.Close()
				return nil, &fs.PathError{Op: "open", Path: name, Err: werr}
			}
			if _, serr := tf.Seek(0, io.SeekStart); serr != nil {
				tf.Close()
				return nil, &fs.PathError{Op: "open", Path: name, Err: serr}
			}
			return tf, nil
		}
	}
	return os.Open(name)
}

// Stat and Lstat ask the storage for the file (a read event like any other).
func Stat(name string) (fs.FileInfo, error) {
	if f := ReadFileFunc; f != nil {
		if data, err, ok := f(name); ok {
			if err != nil {
				return nil, &fs.PathError{Op: "stat", Path: name, Err: err}
			}
			return simInfo{name, int64(len(data))}, nil
		}
	}
	return os.Stat(name)
}

func Lstat(name string) (fs.FileInfo, error) { return Stat(name) }

type simInfo struct {
	name string
	size int64
}

func (i simInfo) Name() string       { return filepath.Base(i.name) }
func (i simInfo) Size() int64        { return i.size }
func (i simInfo) Mode() fs.FileMode  { return 0o644 }
func (i simInfo) ModTime() time.Time { return time.Time{} }
func (i simInfo) IsDir() bool        { return false }
func (i simInfo) Sys() any           { return nil }
