package zzsimrt

import "sync"

// Blocking operations between callers other than Lock and Once.Do, made
// cooperative by the instrumenter (instr: blocking): the operation is tried
// without blocking and the turn given away while it cannot proceed. The real
// channel / lock operation is what finally happens, so the race detector sees
// the happens-before edges the library's code really has.
//
// An unbuffered channel needs a rendezvous of two callers, which a scheduler
// that runs one caller at a time cannot stage by trying: a send on one keeps its
// blocking operation (a caller stuck there while holding the turn is reported by
// the progress watchdog, never as a violation). A receive is tried: it succeeds
// once the channel is closed, which is what "done" channels are for. A select
// without default becomes a loop of non-blocking tries (instr: blocking).
// All of it applies to the caller that holds the turn only: a goroutine the
// library started itself blocks for real, as it would anyway.

//go:norace
func turnHolder() bool {
	return simActive && cur >= 0 && cur < ng && gs[cur].goid == goid()
}

// Send is `ch <- v`.
func Send[T any](site int, ch chan<- T, v T) {
	Yield(site)
	if cap(ch) == 0 || !turnHolder() {
		ch <- v
		return
	}
	for {
		select {
		case ch <- v:
			return
		default:
		}
		YieldWaiting(site)
	}
}

// Recv is `<-ch`.
func Recv[T any](site int, ch <-chan T) T {
	v, _ := Recv2(site, ch)
	return v
}

// Recv2 is `v, ok := <-ch`.
func Recv2[T any](site int, ch <-chan T) (T, bool) {
	Yield(site)
	if !turnHolder() {
		v, ok := <-ch
		return v, ok
	}
	// (an unbuffered channel too: a closed one - the "done" idiom - is always ready; a sender that blocks
	// for real on one holds the turn and is the progress watchdog's business, as before)
	for {
		select {
		case v, ok := <-ch:
			return v, ok
		default:
		}
		YieldWaiting(site)
	}
}

// CondWait is c.Wait(): unlock, let somebody else run, lock again. The caller
// may find its condition still false, which sync.Cond's contract makes it
// re-check in a loop anyway.
func CondWait(site int, c *sync.Cond) {
	if !turnHolder() {
		c.Wait()
		return
	}
	c.L.Unlock()
	YieldWaiting(site)
	LockerLock(site, c.L)
}

// LockerLock is l.Lock() for a lock reached through the sync.Locker interface.
func LockerLock(site int, l sync.Locker) {
	if !turnHolder() {
		l.Lock()
		return
	}
	switch l := l.(type) {
	case *sync.Mutex:
		for !l.TryLock() {
			YieldBlocked(site)
		}
	case *sync.RWMutex:
		for !l.TryLock() {
			YieldBlocked(site)
		}
	default:
		l.Lock() // (e.g. RWMutex.RLocker(): no way to try; stays blocking)
	}
}

// TurnHolder reports whether the goroutine calling it is the simulated caller
// that holds the turn (false outside a simulation and for goroutines the library
// started itself): only then are blocking operations replaced by tries.
func TurnHolder() bool { return turnHolder() }

// SelectBlocked is the default case of the try-form of a select: no
// communication is ready, the turn goes to somebody else (or, alone, time passes).
func SelectBlocked(site int) { YieldWaiting(site) }
