package zzsimrt

import "sync"

// Blocking operations between callers other than Lock and Once.Do, made
// cooperative by the instrumenter (instr: blocking): the operation is tried
// without blocking and the turn given away while it cannot proceed. The real
// channel / lock operation is what finally happens, so the race detector sees
// the happens-before edges the library's code really has.
//
// Unbuffered channels need a rendezvous of two callers, which a scheduler that
// runs one caller at a time cannot stage by trying: they keep their blocking
// operation (a caller stuck there while holding the turn is reported by the
// progress watchdog, never as a violation).

//go:norace
func turnHolder() bool {
	return simActive && cur >= 0 && cur < ng && gs[cur].goid == goid()
}

// Send is `ch <- v`.
func Send[T any](site int, ch chan<- T, v T) {
	Yield(site)
	if cap(ch) == 0 || !turnHolder() {
		ch <- v
		return
	}
	for {
		select {
		case ch <- v:
			return
		default:
		}
		YieldBlocked(site)
	}
}

// Recv is `<-ch`.
func Recv[T any](site int, ch <-chan T) T {
	v, _ := Recv2(site, ch)
	return v
}

// Recv2 is `v, ok := <-ch`.
func Recv2[T any](site int, ch <-chan T) (T, bool) {
	Yield(site)
	if cap(ch) == 0 || !turnHolder() {
		v, ok := <-ch
		return v, ok
	}
	for {
		select {
		case v, ok := <-ch:
			return v, ok
		default:
		}
		YieldBlocked(site)
	}
}

// CondWait is c.Wait(): unlock, let somebody else run, lock again. The caller
// may find its condition still false, which sync.Cond's contract makes it
// re-check in a loop anyway.
func CondWait(site int, c *sync.Cond) {
	if !turnHolder() {
		c.Wait()
		return
	}
	c.L.Unlock()
	YieldBlocked(site)
	LockerLock(site, c.L)
}

// LockerLock is l.Lock() for a lock reached through the sync.Locker interface.
func LockerLock(site int, l sync.Locker) {
	switch l := l.(type) {
	case *sync.Mutex:
		for !l.TryLock() {
			YieldBlocked(site)
		}
	case *sync.RWMutex:
		for !l.TryLock() {
			YieldBlocked(site)
		}
	default:
		l.Lock() // (e.g. RWMutex.RLocker(): no way to try; stays blocking)
	}
}
