// Package conc is SIM-CONC (DESIGN.md §3): caller goroutines sharing one
// loaded, validated document, its routers and a validation middleware, run
// under the zzsimrt scheduler (who runs next is the simulator's choice) in a
// -race build. It decides C15.
package conc

import (
	"context"
	"fmt"
	"regexp"
	"strings"

	"github.com/getkin/kin-openapi/openapi3"
	"github.com/getkin/kin-openapi/routers"
	"github.com/getkin/kin-openapi/routers/gorillamux"
	"github.com/getkin/kin-openapi/routers/legacy"
)

// docYAML is the shared document. It is written to touch every piece of
// state validations share: patterns (the text carries the run marker, so a
// pattern cache starts cold in every run), uniqueItems, formats, defaults on
// parameters and body properties incl. object-valued defaults with nested
// defaults and defaults inside oneOf/anyOf branches (deep copies),
// discriminators, readOnly/writeOnly, all four parameter locations, JSON,
// form, multipart and text bodies, operation- and document-level security,
// servers with variables.
func docYAML(marker string) string {
	y := `
openapi: 3.0.3
info: {title: sim-conc, version: '1'}
servers:
  - url: /v{ver}
    variables:
      ver: {default: '1', enum: ['1', '2']}
security:
  - key: []
paths:
  /pets/mine:
    get:
      operationId: getMine
      security: []
      responses:
        '200': {description: ok}
  /pets/{id}:
    parameters:
      - {name: id, in: path, required: true, schema: {type: integer, minimum: 1}}
      - {name: X-Tenant, in: header, schema: {type: string, maxLength: 8}}
      - {name: fields, in: query, schema: {type: string, pattern: '^[a-z,]*$'}}
    get:
      operationId: getPet
      security: []
      parameters:
        - name: tags
          in: query
          explode: true
          schema: {type: array, uniqueItems: true, maxItems: 4, items: {type: string, pattern: '^[a-z]{1,6}(-MARK)?$'}}
        - {name: limit, in: query, schema: {type: integer, default: 10, maximum: 100}}
        - name: filter
          in: query
          style: deepObject
          explode: true
          schema: {type: object, required: [kind], properties: {kind: {type: string, enum: [cat, dog]}, min: {type: integer}}}
        - name: page
          in: query
          style: deepObject
          explode: true
          schema: {type: object, properties: {size: {type: integer, maximum: 50}, after: {type: string}}}
        - {name: X-Trace, in: header, schema: {type: string, format: date}}
        - {name: sess, in: cookie, schema: {type: string, default: anon, pattern: '^[a-z0-9]+MARKc?$|^anon$'}}
      responses:
        '200':
          description: ok
          headers:
            X-Rate: {schema: {type: integer}}
          content:
            application/json:
              schema: {$ref: '#/components/schemas/Pet'}
        default:
          description: err
          content:
            application/json:
              schema: {$ref: '#/components/schemas/Err'}
    put:
      operationId: putPet
      parameters:
        - {name: dry, in: query, schema: {type: boolean, default: false}}
      requestBody:
        required: true
        content:
          application/json:
            schema: {$ref: '#/components/schemas/Pet'}
      responses:
        '200':
          description: ok
          content:
            application/json:
              schema: {$ref: '#/components/schemas/Pet'}
        '4XX':
          description: bad
          content:
            text/plain:
              schema: {type: string, maxLength: 80}
  /form:
    post:
      operationId: postForm
      security:
        - key: []
          oauth: [read]
        - {}
      requestBody:
        content:
          application/x-www-form-urlencoded:
            schema: {$ref: '#/components/schemas/FormBody'}
            encoding:
              tags: {style: form, explode: true}
      responses:
        '204': {description: none}
  /form2:
    post:
      operationId: postForm2
      security: []
      requestBody:
        content:
          application/x-www-form-urlencoded:
            schema: {$ref: '#/components/schemas/FormBody'}
            encoding:
              tags: {style: form, explode: false}
      responses:
        '204': {description: none}
  /upload:
    post:
      operationId: upload
      security: []
      requestBody:
        content:
          multipart/form-data:
            schema:
              type: object
              required: [name]
              properties:
                name: {type: string, minLength: 2}
                note: {type: string, pattern: 'MARKm'}
                extra: {type: object, properties: {k: {type: string, minLength: 1}, n: {type: string}}}
      responses:
        '201': {description: created}
  /loose:
    post:
      operationId: loose
      security: []
      requestBody:
        content:
          application/*:
            schema: {type: object}
      responses:
        '201': {description: created}
  /strict:
    post:
      operationId: strict
      security: []
      requestBody:
        content:
          application/*:
            schema: {type: object}
          application/json:
            schema: {type: object, required: [name], properties: {name: {type: string, minLength: 1}}}
      responses:
        '201': {description: created}
  /vendor:
    post:
      operationId: vendor
      security: []
      requestBody:
        content:
          application/vnd.MARK+json:
            schema: {type: object, required: [v], properties: {v: {type: integer}}}
      responses:
        '201': {description: created}
  /csv:
    post:
      operationId: csv
      security: []
      requestBody:
        content:
          text/csv:
            schema: {type: string, pattern: '^id,name\n([0-9]+,[a-zMARK]+\n){1,3}$'}
      responses:
        '204': {description: none}
  /text:
    post:
      operationId: text
      security: []
      requestBody:
        content:
          text/plain:
            schema: {type: string, pattern: '^hello .*MARKt$'}
      responses:
        '200':
          description: ok
          content:
            text/plain:
              schema: {type: string, minLength: 2}
components:
  securitySchemes:
    key: {type: apiKey, in: header, name: X-Key}
    oauth:
      type: oauth2
      flows:
        implicit: {authorizationUrl: 'https://sim.test/auth', scopes: {read: r}}
  schemas:
    Pet:
      type: object
      required: [name]
      properties:
        id: {type: integer, readOnly: true}
        secret: {type: string, writeOnly: true}
        name: {type: string, minLength: 1, pattern: '^[A-Za-z][A-Za-z0-9 ]*(MARK)?$'}
        born: {type: string, format: date}
        mode: {type: string, default: std, enum: [std, fast]}
        prefs:
          type: object
          default: {theme: dark}
          properties:
            theme: {type: string}
            size: {type: integer, default: 3}
        labels: {type: array, uniqueItems: true, default: [a, b], items: {type: string}}
        stops:
          type: array
          default: [{name: first}, {name: second, wait: 1}]
          items:
            type: object
            properties:
              name: {type: string}
              wait: {type: integer, default: 5}
        kind:
          oneOf:
            - $ref: '#/components/schemas/Cat'
            - $ref: '#/components/schemas/Dog'
          discriminator:
            propertyName: species
            mapping: {cat: '#/components/schemas/Cat', dog: '#/components/schemas/Dog'}
        extra:
          anyOf:
            - {type: object, required: [a], properties: {a: {type: integer}, pad: {type: string, default: x}}}
            - {type: object, required: [b], properties: {b: {type: string, pattern: '^bMARK?$'}, fill: {type: integer, default: 7}}}
    Cat:
      type: object
      required: [species]
      properties:
        species: {type: string, enum: [cat]}
        lives: {type: integer, default: 9}
    Dog:
      type: object
      required: [species]
      properties:
        species: {type: string, enum: [dog]}
        tricks: {type: array, uniqueItems: true, items: {type: string, pattern: '^[a-z]+MARKd?$'}}
        loud: {type: boolean, default: true}
    FormBody:
      type: object
      required: [name]
      properties:
        name: {type: string, pattern: '^[A-Za-z]+MARKf?$'}
        count: {type: integer}
        tags: {type: array, uniqueItems: true, minItems: 2, items: {type: string}}
    Beast:
      oneOf:
        - $ref: '#/components/schemas/Cat'
        - $ref: '#/components/schemas/Dog'
      discriminator:
        propertyName: species
        mapping: {cat: Cat, dog: Dog}
    Odd:
      type: object
      properties:
        n: {not: {type: string, enum: [forbidden, banned]}}
        m: {type: integer, not: {minimum: 100}}
    Err:
      type: object
      required: [error]
      properties:
        error: {type: string}
`
	return strings.ReplaceAll(y, "MARK", marker)
}

var (
	ownLineDefault = regexp.MustCompile(`(?m)^\s+default: \S.*\n`)
	inlineDefaultA = regexp.MustCompile(`, default: (\[[^\]]*\]|[^,}\s]+)`)
	inlineDefaultB = regexp.MustCompile(`default: (\[[^\]]*\]|[^,}\s]+), `)
)

// plainDocYAML is the same document without any schema default: document
// validation then validates no value at all, so nothing that the library
// initialises lazily at the first validation of a value (per process) has been
// touched when the callers start.
func plainDocYAML(marker string) string {
	y := docYAML(marker)
	y = strings.Replace(y, "ver: {default: '1'", "ver: {dflt-keep: '1'", 1) // a server variable must keep its default
	y = ownLineDefault.ReplaceAllString(y, "")
	y = inlineDefaultA.ReplaceAllString(y, "")
	y = inlineDefaultB.ReplaceAllString(y, "")
	y = strings.Replace(y, "dflt-keep:", "default:", 1)
	return y
}

// World is everything the callers share.
type World struct {
	Doc     *openapi3.T
	Gorilla routers.Router
	Legacy  routers.Router
}

// LoadWorld loads and validates the document and builds both routers. With
// coldPatterns the document is validated with pattern validation disabled (a
// legal way to validate), so that no pattern of the document has been compiled
// before the callers start: first use of every pattern then happens among the
// concurrent calls.
func LoadWorld(marker string, coldPatterns bool, plain bool) (*World, error) {
	loader := openapi3.NewLoader()
	text := docYAML(marker)
	if plain {
		text = plainDocYAML(marker)
	}
	doc, err := loader.LoadFromData([]byte(text))
	if err != nil {
		return nil, fmt.Errorf("load: %w", err)
	}
	var vopts []openapi3.ValidationOption
	if coldPatterns {
		vopts = append(vopts, openapi3.DisableSchemaPatternValidation())
	}
	if err := doc.Validate(context.Background(), vopts...); err != nil {
		return nil, fmt.Errorf("validate: %w", err)
	}
	g, err := gorillamux.NewRouter(doc)
	if err != nil {
		return nil, fmt.Errorf("gorilla: %w", err)
	}
	l, err := legacy.NewRouter(doc, vopts...)
	if err != nil {
		return nil, fmt.Errorf("legacy: %w", err)
	}
	return &World{Doc: doc, Gorilla: g, Legacy: l}, nil
}
