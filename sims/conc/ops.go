package conc

import (
	"bytes"
	"context"
	"crypto/sha256"
	"encoding/hex"
	"encoding/json"
	"errors"
	"fmt"
	"io"
	"math"
	"net/http"
	"os"
	"reflect"
	"sort"
	"strings"

	"github.com/getkin/kin-openapi/openapi3"
	"github.com/getkin/kin-openapi/openapi3filter"
	"github.com/getkin/kin-openapi/openapi3gen"
	"github.com/getkin/kin-openapi/routers"

	"verif/simenv"
	"verif/simfw"
)

// Op is one library call made by a simulated caller. Every op owns its
// request/response objects; only the document, the routers, the validator
// middleware and process-wide state are shared.
type Op struct {
	Kind    string      `json:"kind"` // find | vreq | vresp | visit | match | mw | gen | load
	Router  string      `json:"router,omitempty"`
	Method  string      `json:"method,omitempty"`
	Path    string      `json:"path,omitempty"`
	Query   string      `json:"query,omitempty"`
	Headers [][2]string `json:"headers,omitempty"`
	Cookies [][2]string `json:"cookies,omitempty"`
	CT      string      `json:"ct,omitempty"`
	Body    string      `json:"body,omitempty"`

	Multi        bool   `json:"multi,omitempty"`
	SkipDefaults bool   `json:"skip_defaults,omitempty"`
	Regex        string `json:"regex,omitempty"` // "" | any (a custom compiler whose matcher accepts everything) | none (rejects everything) | panic
	Auth         string `json:"auth,omitempty"`  // ok | fail | read_ok | panic

	Status       int         `json:"status,omitempty"`
	RespHeaders  [][2]string `json:"resp_headers,omitempty"`
	RespBody     string      `json:"resp_body,omitempty"`
	CancelOnRead bool        `json:"cancel_on_read,omitempty"` // vresp: the call's context is cancelled when the body is first read

	Schema string `json:"schema,omitempty"`
	Value  string `json:"value,omitempty"`
	Mode   string `json:"mode,omitempty"` // default | failfast | multi | asreq | asrep

	Strict bool          `json:"strict,omitempty"`
	Script simenv.Script `json:"script,omitempty"`

	Type string `json:"type,omitempty"` // gen: fixed:<name> | dyn:<n>
}

type anyMatcher struct{ v bool }

func (m anyMatcher) MatchString(string) bool { return m.v }

// verdict is the outcome of a call at the level the property speaks about:
// accepted, or rejected and by which part of the validation. Which of several
// failing members is named first, the wording and the wrapping of an error are
// not part of it (they may legitimately follow map order).
func verdict(err error) string {
	if err == nil {
		return "ok"
	}
	set := map[string]bool{}
	var walk func(e error)
	walk = func(e error) {
		// by the outermost library error type; wrappers of other types are looked through
		switch x := e.(type) {
		case nil:
		case openapi3.MultiError:
			if len(x) == 0 {
				set["other"] = true
			}
			for _, m := range x {
				walk(m)
			}
		case *openapi3filter.RequestError:
			switch {
			case x.Parameter != nil:
				set["param"] = true
			case x.RequestBody != nil:
				set["body"] = true
			default:
				set["request"] = true
			}
		case *openapi3filter.ResponseError:
			set["response"] = true
		case *openapi3filter.SecurityRequirementsError:
			set["security"] = true
		case *openapi3.SchemaError:
			set["schema"] = true
		case *routers.RouteError:
			set["route"] = true
		default:
			if u, ok := e.(interface{ Unwrap() []error }); ok && len(u.Unwrap()) > 0 {
				for _, m := range u.Unwrap() {
					walk(m)
				}
			} else if u := errors.Unwrap(e); u != nil {
				walk(u)
			} else {
				set["other"] = true
			}
		}
	}
	walk(err)
	if os.Getenv("ZZSIM_DEBUG_VERDICT") != "" {
		fmt.Fprintf(os.Stderr, "verdict detail: %v\n", err)
	}
	var parts []string
	for k := range set {
		parts = append(parts, k)
	}
	sort.Strings(parts)
	return "reject[" + strings.Join(parts, ",") + "]"
}

// cancellingBody is a response body whose first Read cancels the caller's
// context; like any stream it keeps state that Read and Close both touch.
type cancellingBody struct {
	r      *strings.Reader
	cancel func()
	reads  int
	closed bool
}

func (b *cancellingBody) Read(p []byte) (int, error) {
	b.reads++
	if b.reads == 1 {
		b.cancel()
	}
	if b.closed {
		return 0, errors.New("read after close")
	}
	if len(p) > 7 {
		p = p[:7] // several reads
	}
	return b.r.Read(p)
}

func (b *cancellingBody) Close() error {
	b.closed = true
	return nil
}

// floats puts the floats JSON cannot express where the value names them.
func floats(v any) any {
	switch x := v.(type) {
	case string:
		switch x {
		case "NaN!":
			return math.NaN()
		case "Inf!":
			return math.Inf(1)
		}
	case []any:
		for i := range x {
			x[i] = floats(x[i])
		}
	case map[string]any:
		for k := range x {
			x[k] = floats(x[k])
		}
	}
	return v
}

func digest(parts ...string) string {
	h := sha256.New()
	for _, p := range parts {
		h.Write([]byte(p))
		h.Write([]byte{0})
	}
	return hex.EncodeToString(h.Sum(nil)[:6])
}

func (o Op) request() *http.Request {
	u := "http://sim.test" + o.Path
	if o.Query != "" {
		u += "?" + o.Query
	}
	var body io.Reader
	if o.Body != "" {
		body = strings.NewReader(o.Body)
	}
	m := o.Method
	if m == "" {
		m = "GET"
	}
	req, err := http.NewRequest(m, u, body)
	if err != nil {
		req, _ = http.NewRequest("GET", "http://sim.test/", nil)
	}
	req.Host = req.URL.Host
	req.URL.Scheme, req.URL.Host = "", ""
	for _, h := range o.Headers {
		if h[0] != "" {
			req.Header.Add(h[0], h[1])
		}
	}
	if o.CT != "" {
		req.Header.Set("Content-Type", o.CT)
	}
	for _, c := range o.Cookies {
		if c[0] != "" {
			req.AddCookie(&http.Cookie{Name: c[0], Value: c[1]})
		}
	}
	return req
}

func (o Op) options() *openapi3filter.Options {
	opts := &openapi3filter.Options{MultiError: o.Multi, SkipSettingDefaults: o.SkipDefaults}
	switch o.Regex {
	case "any":
		opts.RegexCompiler = func(string) (openapi3.RegexMatcher, error) { return anyMatcher{true}, nil }
	case "none":
		opts.RegexCompiler = func(string) (openapi3.RegexMatcher, error) { return anyMatcher{false}, nil }
	case "panic": // a callback that crashes inside the library call: no other caller may notice
		opts.RegexCompiler = func(string) (openapi3.RegexMatcher, error) { panic("regex compiler crashed") }
	}
	mode := o.Auth
	opts.AuthenticationFunc = func(_ context.Context, in *openapi3filter.AuthenticationInput) error {
		if mode == "read_ok" {
			if b := in.RequestValidationInput.Request.Body; b != nil {
				io.Copy(io.Discard, b)
			}
		}
		if mode == "fail" {
			return errors.New("rejected")
		}
		if mode == "panic" {
			panic("authentication callback crashed")
		}
		return nil
	}
	return opts
}

func reqDigestM(req *http.Request, marker string) string {
	digest := func(parts ...string) string {
		for i := range parts {
			parts[i] = strings.ReplaceAll(parts[i], marker, "MARK")
		}
		return digest(parts...)
	}
	var body []byte
	if req.Body != nil {
		body, _ = io.ReadAll(req.Body)
	}
	var hs []string
	for k, v := range req.Header {
		hs = append(hs, k+"="+strings.Join(v, ","))
	}
	sort.Strings(hs)
	var norm any
	if json.Unmarshal(body, &norm) == nil {
		body, _ = json.Marshal(norm)
	}
	return fmt.Sprintf("q=%s h=%s b=%s", strings.ReplaceAll(req.URL.RawQuery, marker, "MARK"), digest(hs...), digest(string(body)))
}

type scriptKey struct{}

// Shared holds what the callers share besides the world.
type Shared struct {
	W        *World
	MWStrict http.Handler
	MWWarn   http.Handler
}

func NewShared(w *World) *Shared {
	h := http.HandlerFunc(func(wr http.ResponseWriter, r *http.Request) {
		if s, ok := r.Context().Value(scriptKey{}).(simenv.Script); ok {
			var rec simenv.HandlerRec
			s.Serve(wr, r, &simfw.Log{}, &rec, nil)
		}
	})
	mk := func(strict bool) http.Handler {
		return openapi3filter.NewValidator(w.Gorilla,
			openapi3filter.Strict(strict),
			openapi3filter.OnLog(func(context.Context, string, error) {}),
			openapi3filter.ValidationOptions(openapi3filter.Options{AuthenticationFunc: openapi3filter.NoopAuthenticationFunc}),
		).Middleware(h)
	}
	return &Shared{W: w, MWStrict: mk(true), MWWarn: mk(false)}
}

// Exec performs the op and returns its outcome in comparable form.
// Remark returns the op with every occurrence of the run marker replaced
// (the baseline runs each op against a document whose patterns carry a marker
// of their own, so that "run alone" also means cold process-wide caches).
func (o Op) Remark(from, to string) Op {
	b, _ := json.Marshal(o)
	var out Op
	if json.Unmarshal([]byte(strings.ReplaceAll(string(b), from, to)), &out) != nil {
		return o
	}
	return out
}

// Exec performs the op and returns its outcome in comparable form (the run
// marker is masked, so outcomes under different markers are comparable).
func (o Op) Exec(sh *Shared, marker string) (out string) {
	defer func() {
		if p := recover(); p != nil {
			out = fmt.Sprintf("panic: %v", p)
		}
		out = strings.ReplaceAll(out, marker, "MARK")
		out = strings.ReplaceAll(out, strings.ToUpper(marker), "MARK")
	}()
	digest := func(parts ...string) string {
		for i := range parts {
			parts[i] = strings.ReplaceAll(parts[i], marker, "MARK")
		}
		return digest(parts...)
	}
	reqDigest := func(req *http.Request) string { return reqDigestM(req, marker) }
	w := sh.W
	router := w.Gorilla
	if o.Router == "legacy" {
		router = w.Legacy
	}
	switch o.Kind {
	case "find":
		route, pp, err := router.FindRoute(o.request())
		if err != nil {
			return verdict(err)
		}
		var ks []string
		for k, v := range pp {
			ks = append(ks, k+"="+v)
		}
		sort.Strings(ks)
		return fmt.Sprintf("route %s %s %v", route.Method, route.Path, ks)
	case "vreq":
		req := o.request()
		route, pp, err := router.FindRoute(req)
		if err != nil {
			return verdict(err)
		}
		verr := openapi3filter.ValidateRequest(context.Background(), &openapi3filter.RequestValidationInput{Request: req, PathParams: pp, Route: route, Options: o.options()})
		if verr != nil {
			return verdict(verr) // (what a rejected request looks like afterwards is nobody's promise)
		}
		return "ok | " + reqDigest(req)
	case "vresp":
		req := o.request()
		route, pp, err := router.FindRoute(req)
		if err != nil {
			return verdict(err)
		}
		opts := o.options()
		h := http.Header{}
		for _, kv := range o.RespHeaders {
			if kv[0] != "" {
				h.Add(kv[0], kv[1])
			}
		}
		in := &openapi3filter.ResponseValidationInput{
			RequestValidationInput: &openapi3filter.RequestValidationInput{Request: req, PathParams: pp, Route: route, Options: opts},
			Status:                 o.Status, Header: h, Body: io.NopCloser(strings.NewReader(o.RespBody)), Options: opts,
		}
		ctx := context.Background()
		if o.CancelOnRead {
			// the caller's context ends while the body is being read (the first Read of the body is when)
			c, cancel := context.WithCancel(ctx)
			defer cancel()
			ctx = c
			in.Body = &cancellingBody{r: strings.NewReader(o.RespBody), cancel: cancel}
		}
		verr := openapi3filter.ValidateResponse(ctx, in)
		var after []byte
		if in.Body != nil {
			after, _ = io.ReadAll(in.Body)
		}
		if verr != nil {
			return verdict(verr)
		}
		return "ok | body " + digest(string(after))
	case "visit", "match":
		ref := w.Doc.Components.Schemas[o.Schema]
		if ref == nil || ref.Value == nil {
			return "no-schema"
		}
		var v any
		dec := json.NewDecoder(strings.NewReader(o.Value))
		dec.UseNumber()
		if err := json.Unmarshal([]byte(o.Value), &v); err != nil {
			return "bad-value"
		}
		v = floats(v)
		if o.Kind == "match" {
			return fmt.Sprintf("match=%v", ref.Value.IsMatching(v))
		}
		var opts []openapi3.SchemaValidationOption
		switch o.Mode {
		case "failfast":
			opts = append(opts, openapi3.FailFast())
		case "multi":
			opts = append(opts, openapi3.MultiErrors())
		case "asreq":
			opts = append(opts, openapi3.VisitAsRequest(), openapi3.DefaultsSet(func() {}))
		case "asrep":
			opts = append(opts, openapi3.VisitAsResponse())
		}
		err := ref.Value.VisitJSON(v, opts...)
		if err != nil {
			return verdict(err) // (how far default-setting got inside a rejected value follows map order)
		}
		b, _ := json.Marshal(v)
		return "ok | " + digest(string(b))
	case "mw":
		req := o.request()
		req = req.WithContext(context.WithValue(req.Context(), scriptKey{}, o.Script))
		c := simenv.NewClient(nil, simenv.ClientPlan{}, req.Method)
		h := sh.MWWarn
		if o.Strict {
			h = sh.MWStrict
		}
		h.ServeHTTP(c.Writer(), req)
		c.Finalise()
		if c.Status >= 400 {
			return fmt.Sprintf("status %d", c.Status) // an error page: its wording is not a verdict
		}
		return fmt.Sprintf("status %d body %s", c.Status, digest(c.Body.String()))
	case "load":
		// a loader of the caller's own, going through the process-wide default reader and its URI cache
		loader := openapi3.NewLoader()
		loader.IsExternalRefsAllowed = true
		doc, err := loader.LoadFromFile("/simconc/" + marker + "/" + o.Path)
		if err != nil {
			return "load-err"
		}
		b, _ := json.Marshal(doc)
		return "loaded " + digest(string(b))
	case "gen":
		val := genValue(o.Type, marker)
		schemas := openapi3.Schemas{}
		ref, err := openapi3gen.NewSchemaRefForValue(val, schemas)
		if err != nil {
			return "gen-err"
		}
		b, _ := json.Marshal(ref)
		names := make([]string, 0, len(schemas))
		for k := range schemas {
			names = append(names, k)
		}
		sort.Strings(names)
		return "gen " + digest(string(b)) + " " + strings.Join(names, ",")
	}
	return "unknown-op"
}

type genInner struct {
	A int     `json:"a"`
	B *string `json:"b,omitempty"`
}

type genFixed1 struct {
	Name  string                `json:"name"`
	Tags  []string              `json:"tags"`
	Inner genInner              `json:"inner"`
	M     map[string]int        `json:"m"`
	Next  *genFixed1            `json:"next,omitempty"`
	Any   map[string]any        `json:"any"`
	Bytes []byte                `json:"bytes"`
	Ptr   *genInner             `json:"ptr"`
	Deep  map[string][]genInner `json:"deep"`
}

type genFixed2 struct {
	genInner
	F float32 `json:"f"`
	U uint8   `json:"u"`
}

// gNode is a self-referential generic type: every instantiation is a distinct
// recursive Go type that is new to the process the first time a schema is
// generated for it (reflect.StructOf cannot mint recursive types).
type gNode[T any] struct {
	Next *gNode[T]  `json:"next,omitempty"`
	Val  T          `json:"val"`
	Kids []gNode[T] `json:"kids"`
}

type gPair[A, B any] struct {
	A A `json:"a"`
	B B `json:"b"`
}

func recRow[A any]() []any {
	return []any{
		&gNode[gPair[A, int8]]{}, &gNode[gPair[A, int16]]{}, &gNode[gPair[A, int32]]{}, &gNode[gPair[A, int64]]{},
		&gNode[gPair[A, uint8]]{}, &gNode[gPair[A, uint16]]{}, &gNode[gPair[A, uint32]]{}, &gNode[gPair[A, string]]{},
		&gNode[gPair[A, bool]]{}, &gNode[gPair[A, float32]]{}, &gNode[gPair[A, float64]]{}, &gNode[gPair[A, []string]]{},
	}
}

var recTypes = func() []any {
	var t []any
	t = append(t, recRow[int8]()...)
	t = append(t, recRow[int16]()...)
	t = append(t, recRow[int32]()...)
	t = append(t, recRow[int64]()...)
	t = append(t, recRow[uint8]()...)
	t = append(t, recRow[uint16]()...)
	t = append(t, recRow[string]()...)
	t = append(t, recRow[bool]()...)
	t = append(t, recRow[float32]()...)
	t = append(t, recRow[float64]()...)
	t = append(t, recRow[[]int]()...)
	t = append(t, recRow[map[string]int]()...)
	return t
}()

// genValue returns a value whose type is either compiled in or minted for
// this run with reflect.StructOf (distinct field names per run, so the type
// cache of the generator starts cold without any reset hook).
func genValue(t string, marker string) any {
	switch {
	case t == "fixed:1":
		return &genFixed1{}
	case t == "fixed:2":
		return genFixed2{}
	case t == "fixed:inner":
		return genInner{}
	case strings.HasPrefix(t, "rec:"):
		k := 0
		fmt.Sscanf(t, "rec:%d", &k)
		if k < 0 {
			k = -k
		}
		return recTypes[k%len(recTypes)]
	case strings.HasPrefix(t, "dyn:"):
		n := 0
		fmt.Sscanf(t, "dyn:%d", &n)
		if n < 1 {
			n = 1
		}
		if n > 6 {
			n = 6
		}
		up := strings.ToUpper(marker)
		fields := []reflect.StructField{}
		for i := 0; i < n; i++ {
			var ft reflect.Type
			switch i % 4 {
			case 0:
				ft = reflect.TypeOf("")
			case 1:
				ft = reflect.TypeOf([]int{})
			case 2:
				ft = reflect.TypeOf(genInner{})
			default:
				ft = reflect.TypeOf(map[string]float64{})
			}
			name := fmt.Sprintf("F%sx%d", up, i)
			fields = append(fields, reflect.StructField{Name: name, Type: ft, Tag: reflect.StructTag(fmt.Sprintf(`json:"f%d"`, i))})
		}
		defer func() { recover() }()
		return reflect.New(reflect.StructOf(fields)).Interface()
	}
	return map[string]int{}
}

var _ = bytes.NewReader
