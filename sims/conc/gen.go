package conc

import (
	"bytes"
	"fmt"
	"mime/multipart"
	"net/textproto"
	"net/url"
	"strings"

	"github.com/getkin/kin-openapi/zzsimrt"

	"verif/simenv"
	"verif/simfw"
)

// Spec is the run spec of SIM-CONC.
type Spec struct {
	Marker  string         `json:"marker"`
	Callers [][]Op         `json:"callers"` // one op list per simulated caller goroutine
	Policy  zzsimrt.Policy `json:"policy"`
	MapSeed uint64         `json:"map_seed,omitempty"` // 0 = sorted map iteration; else seeded permutation per site and visit
	// ColdPatterns: the document was validated with pattern validation disabled,
	// so every pattern is first compiled among the concurrent calls.
	ColdPatterns bool `json:"cold_patterns,omitempty"`
	// PlainDoc: the document variant without schema defaults (document validation
	// validates no value). Generated for the first run of every worker process:
	// whatever the library initialises lazily at the first validation of a value
	// is then first touched among the concurrent calls.
	PlainDoc bool `json:"plain_doc,omitempty"`
	// UniqueChecker "panicky": the application registered its own array
	// uniqueness checker (openapi3.RegisterArrayUniqueItemsChecker), a fast one
	// that uses the items as map keys and therefore panics on object items.
	// Registered before the callers start, removed after the run.
	UniqueChecker string `json:"unique_checker,omitempty"`
}

func petBody(r *simfw.RNG, m string, valid bool) string {
	name := simfw.Pick(r, []string{"Rex", "Tom " + m, "Kitty9", "A"})
	parts := []string{fmt.Sprintf(`"name":"%s"`, name)}
	if r.Bool() {
		parts = append(parts, `"born":"2020-02-29"`)
	}
	if r.Chance(1, 3) {
		parts = append(parts, `"mode":"fast"`)
	}
	switch r.Intn(4) {
	case 0:
		parts = append(parts, `"prefs":{}`)
	case 1:
		parts = append(parts, `"prefs":{"theme":"light"}`)
	}
	switch r.Intn(4) {
	case 0:
		parts = append(parts, `"kind":{"species":"cat"}`)
	case 1:
		parts = append(parts, fmt.Sprintf(`"kind":{"species":"dog","tricks":["sit","roll%sd"]}`, m))
	}
	switch r.Intn(4) {
	case 0:
		parts = append(parts, `"extra":{"a":1}`)
	case 1:
		parts = append(parts, `"extra":{"b":"b`+m+`"}`)
	}
	if r.Chance(1, 3) {
		parts = append(parts, `"labels":["x","y"]`)
	}
	if !valid {
		switch r.Intn(6) {
		case 0:
			parts[0] = `"name":"1 bad start"`
		case 1:
			parts = append(parts, `"id":5`) // readOnly in a request
		case 2:
			parts = append(parts, `"labels":["x","x"]`)
		case 3:
			parts = append(parts, `"kind":{"species":"dog","tricks":["UPPER"]}`)
		case 4:
			parts = append(parts, `"born":"yesterday"`)
		case 5:
			parts = append(parts, `"kind":{"species":"bird"}`)
		}
	}
	s := "{"
	for i, p := range parts {
		if i > 0 {
			s += ","
		}
		s += p
	}
	return s + "}"
}

func genOp(r *simfw.RNG, m string) Op {
	rt := simfw.Pick(r, []string{"gorilla", "gorilla", "legacy"})
	ver := simfw.Pick(r, []string{"/v1", "/v1", "/v2"})
	switch r.Intn(20) {
	case 0, 1:
		return Op{Kind: "find", Router: rt, Method: simfw.Pick(r, []string{"GET", "PUT", "POST", "DELETE"}),
			Path: simfw.Pick(r, []string{ver + "/pets/7", ver + "/pets/abc", ver + "/pets/mine", ver + "/form", "/v3/pets/1", "/nope/" + m, ver + "/text", ver + "/upload"})}
	case 2, 3, 4:
		q := url.Values{}
		for i, k := 0, r.Range(0, 3); i < k; i++ {
			q.Add("tags", simfw.Pick(r, []string{"ab", "cd-" + m, "zz", "UP", "ab"}))
		}
		if r.Bool() {
			q.Set("limit", simfw.Pick(r, []string{"5", "100", "1000", "x"}))
		}
		o := Op{Kind: "vreq", Router: rt, Method: "GET", Path: ver + "/pets/" + simfw.Pick(r, []string{"1", "42", "0", "abc", "mine"}), Query: q.Encode(), Multi: r.Chance(1, 3), SkipDefaults: r.Chance(1, 4)}
		if r.Bool() {
			o.Headers = append(o.Headers, [2]string{"X-Trace", simfw.Pick(r, []string{"2021-03-04", "2021-13-40"})})
		}
		if r.Chance(1, 3) {
			o.Headers = append(o.Headers, [2]string{"X-Tenant", simfw.Pick(r, []string{"acme", "much-too-long-tenant", "root"})})
		}
		if r.Chance(1, 3) {
			q.Set("fields", simfw.Pick(r, []string{"name,born", "NAME"}))
			o.Query = q.Encode()
		}
		if r.Chance(1, 2) {
			q.Set("filter[kind]", simfw.Pick(r, []string{"cat", "dog", "bird"}))
			if r.Bool() {
				q.Set("filter[min]", simfw.Pick(r, []string{"3", "x"}))
			}
			o.Query = q.Encode()
		}
		if r.Chance(1, 2) {
			q.Set("page[size]", simfw.Pick(r, []string{"10", "500"}))
			if r.Bool() {
				q.Set("page[after]", "tok"+m)
			}
			o.Query = q.Encode()
		}
		if r.Bool() {
			o.Cookies = append(o.Cookies, [2]string{"sess", simfw.Pick(r, []string{"abc" + m, "abc" + m + "c", "BAD!"})})
		}
		return o
	case 5, 6, 7, 8:
		o := Op{Kind: "vreq", Router: rt, Method: "PUT", Path: ver + "/pets/3", CT: "application/json", Body: petBody(r, m, r.Chance(2, 3)),
			Multi: r.Chance(1, 3), SkipDefaults: r.Chance(1, 4), Regex: simfw.Pick(r, []string{"", "", "", "any", "none", "panic"}), Auth: simfw.Pick(r, []string{"ok", "ok", "fail", "read_ok", "panic"})}
		o.Headers = append(o.Headers, [2]string{"X-Key", "k"})
		if r.Chance(1, 3) {
			o.Query = "dry=true"
		}
		return o
	case 9:
		f := url.Values{"name": {simfw.Pick(r, []string{"Bob" + m, "Bob" + m + "f", "B0b"})}}
		if r.Bool() {
			f.Set("count", simfw.Pick(r, []string{"3", "x"}))
		}
		if r.Bool() {
			f.Add("tags", "a")
			f.Add("tags", simfw.Pick(r, []string{"b", "a"}))
		}
		if r.Bool() {
			// the same schema component behind another operation whose encoding joins the array values
			f.Del("tags")
			if r.Chance(2, 3) {
				f.Set("tags", simfw.Pick(r, []string{"a,b", "a,a", "a"}))
			}
			return Op{Kind: "vreq", Router: rt, Method: "POST", Path: ver + "/form2", CT: "application/x-www-form-urlencoded", Body: f.Encode(), Multi: r.Bool()}
		}
		return Op{Kind: "vreq", Router: rt, Method: "POST", Path: ver + "/form", CT: "application/x-www-form-urlencoded", Body: f.Encode(), Auth: simfw.Pick(r, []string{"ok", "fail", "read_ok"}), Multi: r.Bool()}
	case 10:
		if r.Bool() {
			var buf bytes.Buffer
			w := multipart.NewWriter(&buf)
			w.SetBoundary("concboundary")
			w.WriteField("name", simfw.Pick(r, []string{"file one", "x"}))
			if r.Bool() {
				w.WriteField("note", simfw.Pick(r, []string{"see " + m + "m", "none"}))
			}
			if r.Chance(1, 2) {
				// a part that is a multipart body itself: the decoder is entered again from inside itself
				var inner bytes.Buffer
				iw := multipart.NewWriter(&inner)
				iw.SetBoundary("concinner")
				iw.WriteField("k", simfw.Pick(r, []string{"v", "", "w" + m}))
				iw.Close()
				h := textproto.MIMEHeader{}
				h.Set("Content-Disposition", `form-data; name="extra"`)
				h.Set("Content-Type", "multipart/form-data; boundary=concinner")
				if pw, err := w.CreatePart(h); err == nil {
					pw.Write(inner.Bytes())
				}
			}
			w.Close()
			return Op{Kind: "vreq", Router: rt, Method: "POST", Path: ver + "/upload", CT: w.FormDataContentType(), Body: buf.String()}
		}
		return Op{Kind: "vreq", Router: rt, Method: "POST", Path: ver + "/text", CT: "text/plain", Body: simfw.Pick(r, []string{"hello there " + m + "t", "goodbye " + m + "t", "hello"}), Regex: simfw.Pick(r, []string{"", "any", "none"})}
	case 11, 12:
		o := Op{Kind: "vresp", Router: rt, Method: "GET", Path: ver + "/pets/9", Multi: r.Chance(1, 3), CancelOnRead: r.Chance(1, 4)}
		switch r.Intn(5) {
		case 0, 1:
			o.Status, o.RespBody = 200, fmt.Sprintf(`{"id":%d,"name":"Rex %s","kind":{"species":"cat"}}`, r.Range(1, 99), m)
			o.RespHeaders = [][2]string{{"Content-Type", "application/json"}, {"X-Rate", simfw.Pick(r, []string{"7", "fast"})}}
		case 2:
			o.Status, o.RespBody = 200, `{"name":"Rex","secret":"s3"}` // writeOnly in a response
			o.RespHeaders = [][2]string{{"Content-Type", "application/json"}}
		case 3:
			o.Status, o.RespBody = simfw.Pick(r, []int{404, 500}), simfw.Pick(r, []string{`{"error":"nope"}`, `{"err":1}`})
			o.RespHeaders = [][2]string{{"Content-Type", "application/json"}}
		default:
			o.Status, o.RespBody = 200, `{"name":"Rex","kind":{"species":"dog","tricks":["sit","sit"]}}`
			o.RespHeaders = [][2]string{{"Content-Type", "application/json"}}
		}
		return o
	case 17:
		// media ranges, a type with parameters, a vendor type nobody registered a decoder for
		switch r.Intn(3) {
		case 0:
			return Op{Kind: "vreq", Router: rt, Method: "POST", Path: ver + "/loose", CT: simfw.Pick(r, []string{"application/json; charset=utf-8; run=" + m, "application/json; charset=utf-8; run=" + m, "application/json"}), Body: simfw.Pick(r, []string{`{"x":1}`, `{"name":"n"}`, `[1]`})}
		case 1:
			return Op{Kind: "vreq", Router: rt, Method: "POST", Path: ver + "/strict", CT: simfw.Pick(r, []string{"application/json; charset=utf-8; run=" + m, "application/json; charset=utf-8; run=" + m, "application/json"}), Body: simfw.Pick(r, []string{`{"x":1}`, `{"name":"n"}`, `{"name":""}`})}
		default:
			return Op{Kind: "vreq", Router: rt, Method: "POST", Path: ver + "/vendor", CT: "application/vnd." + m + "+json", Body: simfw.Pick(r, []string{`{"v":1}`, `{"v":"x"}`, `{}`})}
		}
	case 13:
		if r.Chance(1, 6) {
			// a discriminator whose mapping uses bare schema names
			return Op{Kind: "visit", Schema: "Beast", Value: simfw.Pick(r, []string{`{"species":"cat","lives":9}`, `{"species":"dog","tricks":["sit"]}`, `{"species":"cow"}`}), Mode: simfw.Pick(r, []string{"default", "failfast", "multi"})}
		}
		if r.Chance(1, 6) {
			// object items in an array that must hold unique items (a registered uniqueness checker may not cope)
			return Op{Kind: "visit", Schema: "Dog", Value: simfw.Pick(r, []string{`{"species":"dog","tricks":[{"x":1},{"x":1}]}`, `{"species":"dog","tricks":["sit","roll"]}`}), Mode: simfw.Pick(r, []string{"default", "failfast", "multi"})}
		}
		if r.Chance(1, 4) {
			return Op{Kind: "visit", Schema: "Odd", Value: simfw.Pick(r, []string{`{"n":"fine","m":5}`, `{"n":"forbidden"}`, `{"m":500}`, `{"n":7,"m":"x"}`}), Mode: simfw.Pick(r, []string{"default", "default", "failfast", "multi"})}
		}
		schema := simfw.Pick(r, []string{"Pet", "Pet", "Dog", "Cat", "Err"})
		val := simfw.Pick(r, []string{petBody(r, m, true), petBody(r, m, false), `{"species":"dog","tricks":["a` + m + `d","b"]}`, `{"species":"cat","lives":"many"}`, `{"error":"x"}`, `[1,2]`, `null`,
			`{"id":"NaN!","name":"Rex"}`, `{"species":"dog","tricks":["sit","Inf!"]}`, `{"species":"cat","lives":"NaN!"}`}) // (NaN!/Inf!: replaced by the float after decoding; JSON cannot say them, a Go caller can)
		kind := "visit"
		if r.Chance(1, 4) {
			kind = "match"
		}
		return Op{Kind: kind, Schema: schema, Value: val, Mode: simfw.Pick(r, []string{"default", "failfast", "multi", "asreq", "asrep"})}
	case 14:
		body := simfw.Pick(r, []string{fmt.Sprintf(`{"id":1,"name":"Rex %s"}`, m), `{"id":"x"}`, `{"name":"ok","secret":"leak"}`})
		sc := simenv.Script{Ops: []simenv.HOp{{Op: "set", K: "Content-Type", V: "application/json"}, {Op: "status", Code: simfw.Pick(r, []int{200, 200, 404})}, {Op: "write", Data: body}}}
		if r.Chance(1, 4) {
			sc = simenv.Script{}
		}
		return Op{Kind: "mw", Method: "GET", Path: ver + "/pets/" + simfw.Pick(r, []string{"5", "0", "x"}), Strict: r.Bool(), Script: sc}
	case 16:
		// CSV uploads: well-formed, schema-violating, and malformed after a good record
		body := simfw.Pick(r, []string{"id,name\n1,rex" + m + "\n", "id,name\n1,rex\n2,tom\n", "id,name\n1,rex\n2,\"unterminated\n", "id,name\n7,UPPER\n", "id,name\n1,a\n2,b\n3,c\n4,d\n"})
		return Op{Kind: "vreq", Router: rt, Method: "POST", Path: ver + "/csv", CT: "text/csv", Body: body}
	case 15:
		if r.Bool() {
			return Op{Kind: "load", Path: simfw.Pick(r, []string{"main.yaml", "main.yaml", "other.yaml", "missing.yaml"})}
		}
		if r.Bool() {
			return Op{Kind: "gen", Type: fmt.Sprintf("rec:%d", r.Intn(144))}
		}
		return Op{Kind: "gen", Type: simfw.Pick(r, []string{"fixed:1", "dyn:3", "dyn:3", "dyn:5"})}
	default:
		if r.Chance(1, 3) {
			return Op{Kind: "gen", Type: fmt.Sprintf("rec:%d", r.Intn(144))}
		}
		return Op{Kind: "gen", Type: simfw.Pick(r, []string{"fixed:1", "fixed:2", "fixed:inner", "dyn:1", "dyn:3", "dyn:5", "dyn:3"})}
	}
}

// Gen expands a run seed into a run spec.
func Gen(seed uint64, tier string) *Spec {
	r := simfw.NewRNG(seed)
	s := &Spec{Marker: fmt.Sprintf("m%010x", seed&0xffffffffff)}
	ng := r.Range(2, 6)
	crowd := r.Chance(1, 10)
	var herd Op
	if crowd {
		// many callers doing the same thing at the same time
		ng = r.Range(8, 12)
		herd = genOp(r, s.Marker)
	}
	total := 0
	for g := 0; g < ng; g++ {
		n := r.Range(1, 4)
		var ops []Op
		for i := 0; i < n; i++ {
			ops = append(ops, genOp(r, s.Marker))
		}
		if crowd {
			ops = []Op{herd}
			n = 1
		}
		if g > 0 && r.Chance(1, 6) {
			// requests for the same operation with different parameters present: state the library keeps per
			// parameter or per operation is then touched by several callers at nearly the same place
			ops[0] = genOp(simfw.NewRNG(r.Uint64()|2), s.Marker)
			for tries := 0; tries < 12 && !(ops[0].Kind == "vreq" && ops[0].Method == "GET"); tries++ {
				ops[0] = genOp(r, s.Marker)
			}
		}
		// callers that hit the same cold state together are the interesting ones: sometimes duplicate an op across callers
		if g > 0 && r.Chance(1, 3) {
			ops[0] = s.Callers[r.Intn(g)][0]
			if strings.HasPrefix(ops[0].Type, "rec:") && r.Bool() {
				ops[0].Type = fmt.Sprintf("rec:%d", r.Intn(144)) // a different process-new recursive type at the same moment
			}
		}
		total += n
		s.Callers = append(s.Callers, ops)
	}
	p := zzsimrt.Policy{Seed: r.Uint64() | 1, StepCap: 400000}
	switch r.Intn(10) {
	case 0:
		p.Kind = "serial"
	case 1, 2, 3, 4:
		p.Kind = "random"
		p.PNum, p.PDen = 1, simfw.Pick(r, []int{3, 10, 30, 100, 300, 1000})
	case 5:
		p.Kind = "biased" // switches concentrated where shared state is touched
		p.PNum, p.PDen = 1, simfw.Pick(r, []int{100, 1000})
		p.HotNum, p.HotDen = 1, simfw.Pick(r, []int{1, 2, 4})
	case 6, 7:
		p.Kind = "pct"
		p.Depth = r.Range(1, 3)
		p.Horizon = total * simfw.Pick(r, []int{200, 1000, 3000})
	default:
		p.Kind = "rr"
		p.Quantum = simfw.Pick(r, []int{1, 3, 17, 100, 1000})
	}
	s.Policy = p
	if r.Chance(1, 3) {
		s.MapSeed = r.Uint64() | 1
	}
	s.ColdPatterns = r.Bool()
	if r.Chance(1, 5) {
		s.UniqueChecker = "panicky"
	}
	if strings.HasSuffix(tier, "/first") {
		// first run of a process: cold for everything lazily initialised; callers go straight to validations
		s.PlainDoc, s.ColdPatterns = true, true
		for g := range s.Callers {
			s.Callers[g][0] = genOp(simfw.NewRNG(seed+uint64(g)*977), s.Marker)
			for tries := 0; tries < 20 && s.Callers[g][0].Kind != "vreq" && s.Callers[g][0].Kind != "visit" && s.Callers[g][0].Kind != "vresp"; tries++ {
				s.Callers[g][0] = genOp(r, s.Marker)
			}
		}
	}
	return s
}
