package conc

import (
	"encoding/json"
	"fmt"
	"github.com/getkin/kin-openapi/openapi3"
	"hash/fnv"
	"os"
	"regexp"
	"sort"
	"strings"
	"sync"
	"time"

	"github.com/getkin/kin-openapi/zzsimrt"

	"verif/simfw"
)

const Prop = "C15"

type Sim struct{}

func (Sim) Name() string         { return "conc" }
func (Sim) Properties() []string { return []string{Prop} }
func (Sim) Gen(seed uint64, prop, tier string) any {
	return Gen(seed, tier)
}
func (Sim) Components() (real, stub []string) {
	return []string{
			"all of kin-openapi (instrumented copy of the current tree, -race build): routers.FindRoute (gorillamux, legacy), openapi3filter.ValidateRequest/ValidateResponse, Validator.Middleware, openapi3.Schema.VisitJSON/IsMatching, openapi3gen.NewSchemaRefForValue",
			"process-wide state: compiledPatterns, sliceUniqueItemsChecker, format registries, typeInfos+RWMutex, bodyEncoders+RWMutex, bodyDecoders",
			"Go race detector (happens-before over the library's own synchronisation only: scheduler hand-offs are invisible to it)",
		}, []string{
			"goroutine scheduling (zzsimrt: exactly one caller runs; the turn moves at instrumented yield points by a seeded policy or an explicit switch list; library mutexes become TryLock loops)",
			"map iteration order at rewritten range statements (sorted or seeded permutation)",
			"wrapped handler and client connection of the middleware ops", "AuthenticationFunc",
		}
}
func (Sim) Assumptions() []string {
	return []string{
		"a caller is switched only at instrumented sites of kin-openapi (function entry, package-level variable access, sync calls, stores through pointer/field/index/map); code inside dependencies and the standard library runs atomically with respect to the scheduler (races there are still detected: the detector instruments everything)",
		"'the verdict it returns when run alone' = the outcome of the same call executed sequentially, after the concurrent phase, on a freshly loaded copy of the document; outcomes are accept/reject, error kind chains, routes and forwarded-request digests, never message text",
		"package configuration switches (format registration, body decoder registration, SchemaErrorDetailsDisabled) are fixed before the concurrent phase: the property speaks of validations sharing a document, not of reconfiguring the package under them",
	}
}

func init() { simfw.Register(Sim{}) }

var raceLogPos = map[string]int64{}

// newRaceReports returns race-detector output written since the last call.
func newRaceReports() string {
	base := os.Getenv("ZZSIM_RACE_LOG")
	if base == "" {
		return ""
	}
	name := fmt.Sprintf("%s.%d", base, os.Getpid())
	b, err := os.ReadFile(name)
	if err != nil {
		return ""
	}
	pos := raceLogPos[name]
	if int64(len(b)) <= pos {
		return ""
	}
	raceLogPos[name] = int64(len(b))
	return string(b[pos:])
}

var frameRe = regexp.MustCompile(`^  (\S+)\(`)

// ParseRace extracts, from one race report, the top kin-openapi frame of each
// of the two access stacks. ok=false when neither stack has a library frame
// (then the harness itself is at fault).
func ParseRace(report string) (a, b string, ok bool) {
	lines := strings.Split(report, "\n")
	var blocks [][]string
	var cur []string
	inAccess := false
	for _, l := range lines {
		switch {
		case strings.HasPrefix(l, "Read at ") || strings.HasPrefix(l, "Write at ") || strings.HasPrefix(l, "Previous read at ") || strings.HasPrefix(l, "Previous write at ") ||
			strings.HasPrefix(l, "Atomic read at") || strings.HasPrefix(l, "Atomic write at") || strings.HasPrefix(l, "Previous atomic"):
			if cur != nil {
				blocks = append(blocks, cur)
			}
			cur = []string{}
			inAccess = true
		case strings.HasPrefix(l, "Goroutine ") || strings.HasPrefix(l, "=========="):
			if cur != nil {
				blocks = append(blocks, cur)
				cur = nil
			}
			inAccess = false
		default:
			if inAccess {
				if m := frameRe.FindStringSubmatch(l); m != nil {
					cur = append(cur, m[1])
				}
			}
		}
	}
	if cur != nil {
		blocks = append(blocks, cur)
	}
	if len(blocks) < 2 {
		return "", "", false
	}
	// the innermost frame that is not the Go runtime's: if it belongs to the simulation runtime
	// itself, the report is about the harness, not about the library
	for _, frames := range blocks[:2] {
		for _, f := range frames {
			if strings.HasPrefix(f, "runtime.") || strings.HasPrefix(f, "internal/") || strings.HasPrefix(f, "sync.") || strings.HasPrefix(f, "sync/atomic.") {
				continue
			}
			if strings.Contains(f, "/zzsimrt.") {
				return "", "", false
			}
			break
		}
	}
	top := func(frames []string) string {
		for _, f := range frames {
			if i := strings.Index(f, "github.com/getkin/kin-openapi/"); i >= 0 && !strings.Contains(f, "/zzsimrt") {
				f = f[i+len("github.com/getkin/kin-openapi/"):]
				// drop closure suffixes and generic instantiation noise
				f = strings.TrimSuffix(f, "-fm")
				return f
			}
		}
		return ""
	}
	a, b = top(blocks[0]), top(blocks[1])
	if a == "" && b == "" {
		return a, b, false
	}
	// one side in caller code: the caller was reading or writing an object of
	// its own (callers share nothing but the document, routers and middleware),
	// so the library made that object reachable from another caller
	if a == "" {
		a = "caller-owned-value"
	}
	if b == "" {
		b = "caller-owned-value"
	}
	if b < a {
		a, b = b, a
	}
	return a, b, true
}

func splitReports(s string) []string {
	var out []string
	for _, part := range strings.Split(s, "==================") {
		if strings.Contains(part, "DATA RACE") {
			out = append(out, part)
		}
	}
	return out
}

func (Sim) Run(raw json.RawMessage, prop string, keep bool) (res simfw.Result) {
	var s Spec
	if err := json.Unmarshal(raw, &s); err != nil {
		res.Inconcl = "bad spec"
		return
	}
	if len(s.Callers) == 0 {
		res.Inconcl = "no callers"
		return
	}
	if len(s.Marker) < 6 {
		s.Marker = "mqzqzq" + s.Marker // a shrunken marker must stay a distinctive token: outcomes are compared with the marker masked
	}
	if len(s.Callers) > zzsimrt.MaxG {
		s.Callers = s.Callers[:zzsimrt.MaxG]
	}
	log := &simfw.Log{Keep: keep}
	defer func() {
		res.Steps += log.Len()
		res.LogHash = log.Hash()
		if keep {
			res.Events = log.Events
		}
	}()
	newRaceReports() // discard anything older than this run

	zzsimrt.ResetMapOrder(0)
	// simulated file system for "load" ops (read-only while callers run); markers of
	// the baseline documents are served too
	files := map[string][]byte{}
	for _, m := range []string{s.Marker, s.Marker + "b1", s.Marker + "b2", s.Marker + "b3", s.Marker + "b4"} {
		files["/simconc/"+m+"/main.yaml"] = []byte(strings.Replace(docYAML(m), "components:\n", "components:\n  parameters:\n    Shared: {$ref: 'other.yaml#/components/parameters/P'}\n", 1))
		files["/simconc/"+m+"/other.yaml"] = []byte("openapi: 3.0.3\ninfo: {title: other, version: '1'}\npaths: {}\ncomponents:\n  parameters:\n    P: {name: p, in: query, schema: {type: string, pattern: '^p" + m + "$'}}\n")
	}
	zzsimrt.ReadFileFunc = func(name string) ([]byte, error, bool) {
		if b, ok := files[name]; ok {
			return b, nil, true
		}
		return nil, fmt.Errorf("open %s: no such file or directory", name), true
	}
	defer func() { zzsimrt.ReadFileFunc = nil }()
	w, err := LoadWorld(s.Marker, s.ColdPatterns, s.PlainDoc)
	if err != nil {
		res.Inconcl = "world: " + simfw.Trunc(err.Error(), 80)
		return
	}
	if s.UniqueChecker == "panicky" {
		// package configuration, fixed before the callers start (and for the run-alone baselines alike)
		openapi3.RegisterArrayUniqueItemsChecker(func(items []any) bool {
			seen := map[any]struct{}{}
			for _, it := range items {
				if _, dup := seen[it]; dup { // (panics when it is a map or a slice: unhashable)
					return false
				}
				seen[it] = struct{}{}
			}
			return true
		})
		defer func() {
			// back to the library's own checker: unregister, then let one sequential array validation
			// reinstall the default (the library does that lazily; here, where nobody else is running)
			openapi3.RegisterArrayUniqueItemsChecker(nil)
			func() {
				defer func() { recover() }()
				openapi3.NewArraySchema().WithUniqueItems(true).VisitJSON([]any{1.0, 2.0})
			}()
		}()
		res.Probe("custom-unique-items-checker")
	}
	sh := NewShared(w)
	docBefore, _ := json.Marshal(w.Doc)

	ng := len(s.Callers)
	outcomes := make([][]string, ng)
	for g := range outcomes {
		outcomes[g] = make([]string, len(s.Callers[g]))
	}
	zzsimrt.ResetMapOrder(s.MapSeed)
	zzsimrt.OnDeadlock = func(sites []int) {
		var at []string
		for _, id := range sites {
			if id >= 0 && id < len(zzsimrt.Sites) {
				st := zzsimrt.Sites[id]
				at = append(at, fmt.Sprintf("%s:%d(%s)", st.File, st.Line, st.Obj))
			}
		}
		fmt.Fprintf(os.Stderr, "ZZSIM-DEADLOCK at %s\n", strings.Join(at, " "))
		os.Exit(67)
	}
	zzsimrt.Begin(ng, s.Policy)
	var wg sync.WaitGroup
	for g := 0; g < ng; g++ {
		wg.Add(1)
		go func(g int) {
			defer wg.Done()
			zzsimrt.Enter(g)
			for k, op := range s.Callers[g] {
				outcomes[g][k] = op.Exec(sh, s.Marker)
			}
			zzsimrt.Exit(g)
		}(g)
	}
	// progress watchdog: a caller that blocks for real while it holds the turn (a primitive the scheduler does
	// not model: sync.Cond, a channel, a lock inside a dependency) stops everybody. That is nothing the
	// property speaks about, and nothing this simulator can decide: say so quickly instead of burning the budget.
	stopWatch := make(chan struct{})
	go func() {
		last, stuck := zzsimrt.StepNow(), 0
		for {
			select {
			case <-stopWatch:
				return
			case <-time.After(500 * time.Millisecond):
			}
			if now := zzsimrt.StepNow(); now != last {
				last, stuck = now, 0
			} else if stuck++; stuck >= 40 {
				fmt.Fprintf(os.Stderr, "ZZSIM-HANG: no scheduling point passed for 20 s: the caller holding the turn is blocked in something the scheduler does not model (sync.Cond, channel, WaitGroup, a lock taken other than by x.Lock()/x.RLock(), ...); this run cannot be decided\n")
				os.Exit(68)
			}
		}
	}()
	wg.Wait()
	close(stopWatch)
	st := zzsimrt.End()
	zzsimrt.ResetMapOrder(0)
	res.Steps = int(st.Steps)

	// ---- the history: switches with their sites --------------------------------
	site := func(id int) string {
		switch {
		case id == -1:
			return "exit"
		case id == -2:
			return "start"
		case id >= 0 && id < len(zzsimrt.Sites):
			x := zzsimrt.Sites[id]
			return fmt.Sprintf("%s:%d", x.File, x.Line)
		}
		return "?"
	}
	h := fnv.New64a()
	inLib := 0
	overlap := map[[2]int]bool{}
	for _, t := range st.Trace {
		fmt.Fprintf(h, "%d>%d|", t.FromSite, t.ToSite)
		if t.FromSite >= 0 {
			inLib++
			if t.ToSite >= 0 {
				// one caller stopped at site A while another resumes at site B
				res.Cover = append(res.Cover, uint64(t.FromSite)<<32|uint64(uint32(t.ToSite)))
			}
		}
		if t.From >= 0 && t.FromSite >= 0 {
			overlap[[2]int{t.From, t.To}] = true
		}
		if keep || len(st.Trace) <= 64 {
			log.Add("sched", "switch", fmt.Sprintf("step %d: g%d@%s -> g%d@%s", t.Step, t.From, site(t.FromSite), t.To, site(t.ToSite)), "")
		}
	}
	log.Add("sched", "trace", fmt.Sprintf("%d switches, %d steps", len(st.Trace), st.Steps), fmt.Sprintf("%x", h.Sum64()))
	for g := range outcomes {
		for k, o := range outcomes[g] {
			log.Add(fmt.Sprintf("g%d", g), "op", s.Callers[g][k].Kind, o)
			// reach: every kind of call (and, for request validation, every method) must sometimes be accepted:
			// a document change that makes a whole class of calls fail early would otherwise go unnoticed
			op := s.Callers[g][k]
			what := op.Kind
			if op.Kind == "vreq" {
				what += "-" + op.Method
			}
			switch {
			case strings.HasPrefix(o, "ok"), strings.HasPrefix(o, "route "), strings.HasPrefix(o, "match=true"), strings.HasPrefix(o, "status 2"), strings.HasPrefix(o, "loaded"), strings.HasPrefix(o, "gen "):
				res.Probe("accepted-" + what)
			case strings.HasPrefix(o, "reject"), strings.HasPrefix(o, "match=false"), strings.HasPrefix(o, "status "):
				res.Probe("rejected-" + what)
			}
		}
	}
	if inLib > 0 {
		res.Probe("switch-inside-library")
	}
	if len(overlap) > 0 {
		res.Probe("calls-overlapped")
	}
	if st.LockWaits > 0 {
		res.Probe("lock-contention")
	}
	if res.Probes == nil {
		res.Probes = map[string]int{}
	}
	res.Probes["sites-executed"] += st.SitesCovered
	if st.Overrun {
		res.Inconcl = "step cap reached"
	}
	if st.Unmanaged > 0 {
		// the library started goroutines of its own: they ran free, so this run's schedule is not fully the simulator's
		res.Probes["unmanaged-goroutine-yields"] += int(st.Unmanaged)
	}
	if res.Probes == nil {
		res.Probes = map[string]int{}
	}
	res.Probe("policy-" + s.Policy.Kind)
	if s.MapSeed != 0 {
		res.Probe("map-order-permuted")
	}
	if s.ColdPatterns {
		res.Probe("patterns-cold-at-start")
	}
	if s.PlainDoc {
		res.Probe("first-use-in-process")
	}

	explicit := s
	explicit.Policy = zzsimrt.Explicit(st.Trace, s.Policy.StepCap)
	sigOp := func(g, k int) string { return s.Callers[g][k].Kind }

	// ---- A: no data race -------------------------------------------------------
	for _, rep := range splitReports(newRaceReports()) {
		a, b, ok := ParseRace(rep)
		if !ok {
			res.Inconcl = "harness-race: a race report with no kin-openapi frame in either stack: " + simfw.Trunc(rep, 1500)
			continue
		}
		res.Violate(Prop, "race", fmt.Sprintf("%s/race:%s|%s", Prop, a, b), "data race between concurrent callers sharing a loaded document:\n"+simfw.Trunc(rep, 3000))
	}

	// ---- D: the shared document is unchanged -----------------------------------
	docAfter, _ := json.Marshal(w.Doc)
	if string(docBefore) != string(docAfter) {
		res.Violate(Prop, "doc-unchanged", Prop+"/document-changed", "the shared document serialises differently after the calls than before: "+firstDiff(string(docBefore), string(docAfter)))
	}

	// ---- B: every call returned what it returns when run alone ------------------
	// Each op runs alone (sequentially) on a freshly loaded document whose patterns
	// carry a marker the concurrent phase has not seen, so that "alone" also means
	// cold with respect to process-wide caches keyed by pattern text. Ops that
	// bring their own regex compiler get a document (marker) per compiler kind, so
	// no baseline can be served a matcher another baseline's compiler produced.
	type baseW struct {
		marker string
		sh     *Shared
	}
	bases := map[string]*baseW{}
	nextTry := 0
	for g := range s.Callers {
		for k, op := range s.Callers[g] {
			b := bases[op.Regex]
			if b == nil {
				bm := fmt.Sprintf("%sb%d", s.Marker, len(bases)+1)
				bw, err := LoadWorld(bm, s.ColdPatterns, s.PlainDoc)
				if err != nil {
					res.Inconcl = "baseline world"
					return
				}
				b = &baseW{bm, NewShared(bw)}
				bases[op.Regex] = b
			}
			alone := op.Remark(s.Marker, b.marker).Exec(b.sh, b.marker)
			if alone != outcomes[g][k] && s.MapSeed != 0 {
				// The concurrent phase ran under a permuted map order, the baseline under the sorted one. Which of
				// several failing members a validation meets first may legitimately follow map order (and with it
				// whether a crashing callback is reached at all): "the verdict when run alone" is then a set. The
				// call is run alone again under other orders, each time on a fresh, cold document; only an outcome
				// that none of them produces is a difference.
				for t := 0; t < 32 && alone != outcomes[g][k]; t++ {
					tm := fmt.Sprintf("%st%d", s.Marker, nextTry)
					nextTry++
					tw, err := LoadWorld(tm, s.ColdPatterns, s.PlainDoc)
					if err != nil {
						break
					}
					zzsimrt.ResetMapOrder(s.MapSeed + uint64(t))
					alt := op.Remark(s.Marker, tm).Exec(NewShared(tw), tm)
					zzsimrt.ResetMapOrder(0)
					if alt == outcomes[g][k] {
						alone = alt
						res.Probe("outcome-follows-map-order")
					}
				}
			}
			if alone != outcomes[g][k] {
				res.Violate(Prop, "same-as-alone", fmt.Sprintf("%s/outcome-differs:%s", Prop, sigOp(g, k)),
					fmt.Sprintf("caller %d op %d (%s) returned %q among %d concurrent callers but %q when run alone (policy %s, %d switches)", g, k, op.Kind, outcomes[g][k], ng, alone, s.Policy.Kind, len(st.Trace)))
			}
			if strings.HasPrefix(alone, "panic") {
				res.Probe("callback-crash-inside-call")
			}
		}
	}
	if rep := newRaceReports(); rep != "" {
		// a single call run alone raced: with the library's own frames in both stacks the library races with
		// itself (a goroutine it started); anything else is the harness's trouble
		if a, b, ok := ParseRace(rep); ok && a != "caller-owned-value" && b != "caller-owned-value" {
			res.Violate(Prop, "race", fmt.Sprintf("%s/race:%s|%s", Prop, a, b), "data race inside a single call run alone (the library races with a goroutine of its own):\n"+simfw.Trunc(rep, 3000))
		} else {
			res.Inconcl = "harness-race: race report during the sequential baseline phase: " + simfw.Trunc(rep, 1500)
		}
	}
	if len(res.Violations) > 0 {
		b, _ := json.Marshal(explicit)
		res.Respec = b
	}

	var kinds []string
	for _, c := range s.Callers {
		var ks []string
		for _, o := range c {
			ks = append(ks, o.Kind[:2])
		}
		kinds = append(kinds, strings.Join(ks, ""))
	}
	sort.Strings(kinds)
	res.Class = simfw.ClassKey(strings.Join(kinds, "|"), fmt.Sprintf("%x", h.Sum64()))
	res.Nontrivial = inLib > 0
	return
}

func firstDiff(a, b string) string {
	i := 0
	for i < len(a) && i < len(b) && a[i] == b[i] {
		i++
	}
	lo := i - 60
	if lo < 0 {
		lo = 0
	}
	end := func(s string) int {
		if i+60 < len(s) {
			return i + 60
		}
		return len(s)
	}
	return fmt.Sprintf("at byte %d: before …%s… after …%s…", i, a[lo:end(a)], b[lo:end(b)])
}
