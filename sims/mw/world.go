// Package mw is SIM-MW (DESIGN.md §3): the validation middleware driven by
// histories of requests, scripted handlers, body streams and client
// connections, checked against C14.
package mw

import (
	"context"
	"fmt"
	"strings"

	"github.com/getkin/kin-openapi/openapi3"
	"github.com/getkin/kin-openapi/routers"
	"github.com/getkin/kin-openapi/routers/gorillamux"
	"github.com/getkin/kin-openapi/routers/legacy"
)

// DocParams selects one member of the document family.
type DocParams struct {
	Secured     bool `json:"secured,omitempty"`      // POST /items/{id} requires the api key
	ReqHeader   bool `json:"req_header,omitempty"`   // POST requires header X-Req
	RespHeader  bool `json:"resp_header,omitempty"`  // 200 declares required response header X-Rate
	Class4xx    bool `json:"class_4xx,omitempty"`    // a 4XX text/plain entry
	Default     bool `json:"default,omitempty"`      // a default JSON entry
	ServerBase  bool `json:"server_base,omitempty"`  // servers: [{url: /api}]
	BodyDefault bool `json:"body_default,omitempty"` // request body property with a default
	ServerHost  bool `json:"server_host,omitempty"`  // servers: [{url: http://sim.test/api}] (gorilla router only)
	ObjParam    bool `json:"obj_param,omitempty"`    // POST takes an object-valued query parameter (form, not exploded)
}

func (p DocParams) Key() string {
	b := func(x bool) byte {
		if x {
			return '1'
		}
		return '0'
	}
	return string([]byte{b(p.Secured), b(p.ReqHeader), b(p.RespHeader), b(p.Class4xx), b(p.Default), b(p.ServerBase), b(p.BodyDefault), b(p.ServerHost), b(p.ObjParam)})
}

func (p DocParams) Base() string {
	if p.ServerBase || p.ServerHost {
		return "/api"
	}
	return ""
}

// YAML renders the document.
func (p DocParams) YAML() string {
	var sb strings.Builder
	w := func(f string, a ...any) { fmt.Fprintf(&sb, f, a...) }
	w("openapi: 3.0.3\ninfo: {title: sim-mw, version: '1'}\n")
	if p.ServerHost {
		w("servers:\n  - url: http://sim.test/api\n")
	} else if p.ServerBase {
		w("servers:\n  - url: /api\n")
	}
	w("paths:\n")
	w("  /items/{id}:\n")
	w("    parameters:\n      - {name: id, in: path, required: true, schema: {type: integer, minimum: 1}}\n")
	w("    post:\n")
	w("      operationId: postItem\n")
	w("      parameters:\n        - {name: q, in: query, schema: {type: string, minLength: 2}}\n")
	if p.ReqHeader {
		w("        - {name: X-Req, in: header, required: true, schema: {type: string, enum: [a, b]}}\n")
	}
	if p.ObjParam {
		w("        - name: color\n          in: query\n          explode: false\n          schema: {type: object, properties: {R: {type: integer}, G: {type: integer}}}\n")
	}
	if p.Secured {
		w("      security:\n        - key: []\n")
	}
	w("      requestBody:\n        required: true\n        content:\n          application/json:\n            schema:\n")
	w("              type: object\n              required: [name]\n              additionalProperties: false\n              properties:\n")
	w("                name: {type: string, minLength: 1}\n                n: {type: integer}\n")
	if p.BodyDefault {
		w("                mode: {type: string, default: std}\n")
	}
	resp200 := func(ind string) {
		w("%s'200':\n%s  description: ok\n", ind, ind)
		if p.RespHeader {
			w("%s  headers:\n%s    X-Rate: {required: true, schema: {type: integer}}\n", ind, ind)
		}
		w("%s  content:\n%s    application/json:\n%s      schema:\n", ind, ind, ind)
		w("%s        type: object\n%s        required: [id]\n%s        additionalProperties: false\n", ind, ind, ind)
		w("%s        properties: {id: {type: integer}, tag: {type: string}}\n", ind)
	}
	others := func(ind string) {
		if p.Class4xx {
			w("%s'4XX':\n%s  description: client error\n%s  content:\n%s    text/plain:\n%s      schema: {type: string, maxLength: 64}\n", ind, ind, ind, ind, ind)
		}
		if p.Default {
			w("%sdefault:\n%s  description: other\n%s  content:\n%s    application/json:\n%s      schema: {type: object, required: [error], properties: {error: {type: string}}}\n", ind, ind, ind, ind, ind)
		}
	}
	w("      responses:\n")
	resp200("        ")
	others("        ")
	w("    get:\n      operationId: getItem\n      responses:\n")
	resp200("        ")
	w("        '204': {description: none}\n")
	others("        ")
	w("  /ping:\n    head:\n      operationId: pingHead\n      responses:\n        '200': {description: ok}\n")
	w("    get:\n      operationId: ping\n      responses:\n")
	w("        '204': {description: none}\n")
	w("        '200':\n          description: ok\n          content:\n            text/plain:\n              schema: {type: string, minLength: 2}\n")
	// a plain-text note: any prefix of a valid body is a valid body too
	w("    post:\n      operationId: pingNote\n      security: []\n      requestBody:\n        required: true\n        content:\n          text/plain:\n            schema: {type: string, maxLength: 4000}\n      responses:\n")
	w("        '204': {description: none}\n")
	w("        '200':\n          description: ok\n          content:\n            text/plain:\n              schema: {type: string, minLength: 2}\n")
	w("components:\n  securitySchemes:\n    key: {type: apiKey, in: header, name: X-Key}\n")
	return sb.String()
}

// World is one loaded document with its routers.
type World struct {
	Doc    *openapi3.T
	Router routers.Router
}

func LoadWorld(yaml string, router string) (*World, error) {
	loader := openapi3.NewLoader()
	doc, err := loader.LoadFromData([]byte(yaml))
	if err != nil {
		return nil, fmt.Errorf("load: %w", err)
	}
	if err := doc.Validate(context.Background()); err != nil {
		return nil, fmt.Errorf("validate: %w", err)
	}
	var r routers.Router
	if router == "legacy" {
		r, err = legacy.NewRouter(doc)
	} else {
		r, err = gorillamux.NewRouter(doc)
	}
	if err != nil {
		return nil, fmt.Errorf("router: %w", err)
	}
	return &World{Doc: doc, Router: r}, nil
}
