package mw

import (
	"fmt"
	"hash/fnv"
	"strings"

	"verif/simenv"
	"verif/simfw"
)

// Spec is the run spec of SIM-MW: one middleware instance and a short history
// of requests through it.
type Spec struct {
	Doc            DocParams `json:"doc"`
	Router         string    `json:"router"`             // gorilla | legacy
	Kind           string    `json:"kind"`               // validator | vh_serve | vh_mw
	Strict         bool      `json:"strict,omitempty"`   // validator only
	ErrFunc        string    `json:"err_func,omitempty"` // default | record | silent | alt
	LogFunc        string    `json:"log_func,omitempty"` // default | record
	Encoder        string    `json:"encoder,omitempty"`  // vh: default | validation | record
	MultiError     bool      `json:"multi_error,omitempty"`
	Auth           string    `json:"auth,omitempty"` // ok | fail | read_ok | read_fail
	Marker         string    `json:"marker"`
	MapSeed        uint64    `json:"map_seed,omitempty"`         // 0 = sorted map iteration inside the library; else seeded permutation (the neutral oracle always runs sorted)
	ExclRespBody   bool      `json:"excl_resp_body,omitempty"`   // validator: Options.ExcludeResponseBody
	InclRespStatus bool      `json:"incl_resp_status,omitempty"` // validator: Options.IncludeResponseStatus
	VHOrder        string    `json:"vh_order,omitempty"`         // vh_*: "" (Load, then Middleware) | mw_first | reload
	Rewrap         bool      `json:"rewrap,omitempty"`           // validator: Middleware() is called twice, for two handlers; requests go through the second wrapper
	Reqs           []Req     `json:"reqs"`
}

type Req struct {
	Host       string            `json:"host,omitempty"` // Host header ("" = sim.test)
	Method     string            `json:"method"`
	Path       string            `json:"path"`
	Query      string            `json:"query,omitempty"`
	Headers    [][2]string       `json:"headers,omitempty"`
	Body       string            `json:"body,omitempty"`
	HasBody    bool              `json:"has_body,omitempty"`
	Chunk      simenv.ChunkPlan  `json:"chunk,omitempty"`
	GetBody    string            `json:"get_body,omitempty"` // "" | ok | err
	CLUnknown  bool              `json:"cl_unknown,omitempty"`
	Intent     string            `json:"intent"`      // noroute | valid | invalid (+":why")
	RespIntent string            `json:"resp_intent"` // valid | invalid | n/a
	Script     simenv.Script     `json:"script"`
	Client     simenv.ClientPlan `json:"client,omitempty"`
}

func chunkPlan(r *simfw.RNG, n int, allowFault bool) simenv.ChunkPlan {
	var p simenv.ChunkPlan
	switch r.Intn(6) {
	case 0: // single chunk
	case 1:
		p.Sizes = []int{1}
	case 2:
		p.Sizes = []int{r.Range(2, 7)}
	case 3:
		k := r.Range(2, 5)
		for i := 0; i < k; i++ {
			p.Sizes = append(p.Sizes, r.Range(0, 40))
		}
	case 4:
		p.Sizes = []int{600, 1}
	case 5:
		p.Sizes = []int{0, r.Range(1, 9), 0, 0, 3}
	}
	p.EOFWithData = r.Bool()
	if allowFault && n > 1 {
		p.FaultAt = r.Range(1, n-1)
		p.FaultKind = simfw.Pick(r, []string{"eio", "reset", "unexpected_eof"})
	}
	return p
}

type respPlan struct {
	status  int
	headers [][2]string
	body    string
	intent  string
}

func (s *Spec) respPlanFor(r *simfw.RNG, op string, mk string) respPlan {
	d := s.Doc
	rate := [][2]string{}
	if d.RespHeader {
		rate = append(rate, [2]string{"X-Rate", fmt.Sprint(r.Range(1, 99))})
	}
	jsonCT := [2]string{"Content-Type", simfw.Pick(r, []string{"application/json", "application/json; charset=utf-8"})}
	okBody := fmt.Sprintf(`{"id":%d,"tag":"%s"}`, r.Range(1, 999), mk)
	if op == "ping" {
		switch r.Intn(4) {
		case 0:
			if r.Chance(1, 3) {
				// two characters, one of them white space: valid as written (minLength 2), not after trimming
				return respPlan{200, [][2]string{{"Content-Type", "text/plain"}}, simfw.Pick(r, []string{"x\n", "\tx", " x", "x ", "\r\n"}), "valid"}
			}
			return respPlan{200, [][2]string{{"Content-Type", "text/plain"}}, mk + " pong", "valid"}
		case 1:
			if r.Chance(1, 3) {
				return respPlan{204, nil, mk + " a body that 204 does not allow", "valid"} // the connection refuses it; the declaration has no content to check
			}
			return respPlan{204, nil, "", "valid"}
		case 2:
			return respPlan{200, [][2]string{{"Content-Type", "text/plain"}}, "x", "invalid"} // minLength 2; no marker fits
		default:
			return respPlan{200, [][2]string{{"Content-Type", "application/xml"}}, "<a>" + mk + "</a>", "invalid"}
		}
	}
	if r.Chance(1, 14) {
		// 101 Switching Protocols is a final status, unlike the other 1xx codes
		if d.Default {
			return respPlan{101, nil, "", "unknown"} // the default entry wants a JSON body; whether a bodiless status must carry one is a verdict question, not C14's
		}
		return respPlan{101, nil, "", "valid"}
	}
	switch r.Intn(12) {
	case 0, 1, 2:
		return respPlan{200, append([][2]string{jsonCT}, rate...), okBody, "valid"}
	case 3:
		bad := simfw.Pick(r, []string{
			fmt.Sprintf(`{"id":"seven","tag":"%s"}`, mk),
			fmt.Sprintf(`{"tag":"%s"}`, mk),
			fmt.Sprintf(`{"id":3,"tag":"%s","extra":true}`, mk),
			fmt.Sprintf(`{"id":3,"tag":"%s"`, mk),
			fmt.Sprintf(`["%s"]`, mk),
		})
		return respPlan{200, append([][2]string{jsonCT}, rate...), bad, "invalid"}
	case 4:
		return respPlan{200, append([][2]string{{"Content-Type", "text/html"}}, rate...), okBody, "invalid"}
	case 5:
		if d.RespHeader {
			if r.Bool() {
				return respPlan{200, [][2]string{jsonCT}, okBody, "invalid"} // required header missing
			}
			return respPlan{200, [][2]string{jsonCT, {"X-Rate", "fast"}}, okBody, "invalid"}
		}
		return respPlan{200, [][2]string{jsonCT}, okBody, "valid"}
	case 6:
		if op == "getItem" {
			return respPlan{204, nil, "", "valid"}
		}
		// 204 is not declared for POST: passes unless a default entry catches it
		if d.Default {
			return respPlan{204, nil, "", "unknown"} // default entry wants a JSON body (same remark as for 101)
		}
		return respPlan{204, nil, "", "valid"}
	case 7, 8:
		code := simfw.Pick(r, []int{404, 409, 422})
		body := mk + " not here"
		switch {
		case d.Class4xx:
			return respPlan{code, [][2]string{{"Content-Type", "text/plain"}}, body, "valid"}
		case d.Default:
			return respPlan{code, [][2]string{{"Content-Type", "text/plain"}}, body, "invalid"} // default wants JSON
		default:
			return respPlan{code, [][2]string{{"Content-Type", "text/plain"}}, body, "valid"} // undeclared status passes
		}
	case 9:
		code := simfw.Pick(r, []int{404, 400})
		body := mk + strings.Repeat(" long", 20)
		if d.Class4xx {
			return respPlan{code, [][2]string{{"Content-Type", "text/plain"}}, body, "invalid"} // maxLength 64
		}
		if d.Default {
			return respPlan{code, [][2]string{{"Content-Type", "text/plain"}}, body, "invalid"}
		}
		return respPlan{code, [][2]string{{"Content-Type", "text/plain"}}, body, "valid"}
	case 10:
		code := simfw.Pick(r, []int{500, 503})
		body := fmt.Sprintf(`{"error":"%s"}`, mk)
		return respPlan{code, [][2]string{jsonCT}, body, "valid"} // valid under default, passes when undeclared
	default:
		code := simfw.Pick(r, []int{500, 502})
		body := fmt.Sprintf(`{"err":"%s"}`, mk)
		if d.Default {
			return respPlan{code, [][2]string{jsonCT}, body, "invalid"}
		}
		return respPlan{code, [][2]string{jsonCT}, body, "valid"}
	}
}

func split(r *simfw.RNG, s string, k int) []string {
	if k <= 1 || len(s) < 2 {
		return []string{s}
	}
	var out []string
	for len(s) > 0 && len(out) < k-1 {
		n := r.Range(1, len(s))
		out = append(out, s[:n])
		s = s[n:]
	}
	if len(s) > 0 {
		out = append(out, s)
	}
	return out
}

// script builds the handler behaviour: a response plan delivered through one
// of the call-sequence shapes C14 quantifies over.
func (s *Spec) script(r *simfw.RNG, op string, mk string) (simenv.Script, string) {
	p := s.respPlanFor(r, op, mk)
	var ops []simenv.HOp
	add := func(o simenv.HOp) { ops = append(ops, o) }
	if r.Chance(1, 4) {
		add(simenv.HOp{Op: "readall"})
	}
	hdrs := func() {
		for _, h := range p.headers {
			add(simenv.HOp{Op: "set", K: h[0], V: h[1]})
		}
	}
	intent := p.intent
	shape := r.Intn(12)
	if p.status != 200 && (shape == 1 || shape == 4) {
		shape = 0
	}
	switch shape {
	case 0, 7, 8: // status then one write
		hdrs()
		add(simenv.HOp{Op: "status", Code: p.status})
		if p.body != "" {
			add(simenv.HOp{Op: "write", Data: p.body})
		}
	case 1: // write only (implicit 200)
		hdrs()
		if p.body != "" {
			add(simenv.HOp{Op: "write", Data: p.body})
		}
	case 2: // pieces
		hdrs()
		add(simenv.HOp{Op: "status", Code: p.status})
		for i, piece := range split(r, p.body, r.Range(2, 4)) {
			if piece == "" {
				continue
			}
			add(simenv.HOp{Op: "write", Data: piece})
			if i == 0 && r.Chance(1, 3) {
				add(simenv.HOp{Op: "flush"})
			}
		}
	case 3: // several WriteHeader calls: the first one counts
		hdrs()
		add(simenv.HOp{Op: "status", Code: p.status})
		add(simenv.HOp{Op: "status", Code: simfw.Pick(r, []int{200, 404, 500, 201})})
		if p.body != "" {
			add(simenv.HOp{Op: "write", Data: p.body})
		}
		if r.Bool() {
			add(simenv.HOp{Op: "status", Code: 418})
		}
	case 4: // write, then a WriteHeader that must be ignored
		hdrs()
		if p.body != "" {
			add(simenv.HOp{Op: "write", Data: p.body})
		}
		add(simenv.HOp{Op: "status", Code: simfw.Pick(r, []int{404, 500, 201})})
	case 5: // status only: the declared body is missing
		hdrs()
		add(simenv.HOp{Op: "status", Code: p.status})
		if p.body != "" {
			intent = "unknown" // an empty body may or may not satisfy the entry; decided by the neutral oracle
		}
	case 6: // silent handler: returns without touching the writer
		intent = "unknown"
	case 9: // an informational status first
		hdrs()
		add(simenv.HOp{Op: "status", Code: simfw.Pick(r, []int{100, 102, 103})})
		add(simenv.HOp{Op: "status", Code: p.status})
		if p.body != "" {
			add(simenv.HOp{Op: "write", Data: p.body})
		}
	case 10: // flush after the status (never before the header is decided, see DESIGN §2.3)
		hdrs()
		add(simenv.HOp{Op: "status", Code: p.status})
		add(simenv.HOp{Op: "flush"})
		if p.body != "" {
			add(simenv.HOp{Op: "write", Data: p.body})
			add(simenv.HOp{Op: "flush"})
		}
	case 11: // flush first (non-strict only: in strict mode nothing may reach the client early)
		hdrs()
		if !s.Strict && s.Kind == "validator" {
			add(simenv.HOp{Op: "flush"})
		}
		add(simenv.HOp{Op: "status", Code: p.status})
		if p.body != "" {
			add(simenv.HOp{Op: "write", Data: p.body})
		}
	}
	// a header the validator does not look at may change at any time
	if r.Chance(1, 3) {
		at := r.Intn(len(ops) + 1)
		ops = append(ops[:at], append([]simenv.HOp{{Op: "add", K: "X-Trace", V: "t" + mk}}, ops[at:]...)...)
	}
	if r.Chance(1, 6) {
		add(simenv.HOp{Op: "readall"})
	}
	if r.Chance(1, 12) && len(ops) > 0 {
		// the handler crashes somewhere along the way
		at := r.Intn(len(ops) + 1)
		ops = append(ops[:at:at], simenv.HOp{Op: "abort"})
		intent = "aborted"
	}
	return simenv.Script{Ops: ops}, intent
}

// request builds one request of a given intent.
func (s *Spec) request(r *simfw.RNG, i int, faultOK bool) Req {
	d := s.Doc
	mk := fmt.Sprintf("%s-%d", s.Marker, i)
	// request bytes carry their own marker, sharing no substring with the handler's: error pages may quote the request
	hm := fnv.New64a()
	hm.Write([]byte(s.Marker))
	rq := fmt.Sprintf("RQ%012x-%d", hm.Sum64()&0xffffffffffff, i)
	q := Req{}
	base := d.Base()
	key := [2]string{"X-Key", "k"}
	goodPost := func() {
		q.Method = "POST"
		q.Path = base + fmt.Sprintf("/items/%d", r.Range(1, 500))
		if r.Bool() {
			q.Query = "q=" + simfw.Pick(r, []string{"ab", "hello", "q%20q"})
		}
		if d.ReqHeader {
			q.Headers = append(q.Headers, [2]string{"X-Req", simfw.Pick(r, []string{"a", "b"})})
		}
		if d.ObjParam && r.Bool() {
			if q.Query != "" {
				q.Query += "&"
			}
			q.Query += "color=R,100,G,20"
		}
		if d.Secured {
			q.Headers = append(q.Headers, key)
		}
		q.Headers = append(q.Headers, [2]string{"Content-Type", "application/json"})
		q.HasBody = true
		q.Body = simfw.Pick(r, []string{
			fmt.Sprintf(`{"name":"%s"}`, rq),
			fmt.Sprintf(`{"name":"%s","n":%d}`, rq, r.Range(-5, 5000)),
			fmt.Sprintf(`{ "n": 1,   "name": "%s %s" }`, rq, strings.Repeat("pad ", r.Range(0, 200))),
		})
	}
	kind := r.Intn(20)
	switch {
	case kind < 7: // valid POST
		goodPost()
		q.Intent = "valid"
	case kind == 7 && r.Bool(): // a plain-text note (valid whatever it says)
		q.Method = "POST"
		q.Path = base + "/ping"
		q.Intent = "valid"
		q.Headers = append(q.Headers, [2]string{"Content-Type", "text/plain"})
		q.HasBody = true
		q.Body = "note " + rq + strings.Repeat(" more", r.Range(0, 40))
	case kind < 9: // GET item / ping: valid, or violating the parameter declared on the path item only
		q.Method = "GET"
		q.Intent = "valid"
		switch r.Intn(4) {
		case 0, 1:
			q.Path = base + fmt.Sprintf("/items/%d", r.Range(1, 500))
		case 2:
			q.Path = base + "/ping"
			if r.Chance(1, 3) {
				q.Method = "HEAD" // response validation is skipped for HEAD; the connection discards any body
			}
		default:
			q.Path = base + simfw.Pick(r, []string{"/items/abc", "/items/0", "/items/-3"})
			q.Intent = "invalid:path"
		}
		if r.Chance(1, 3) { // a GET may carry a body nobody validates
			q.HasBody = true
			q.Body = "ignored " + rq
		}
	case kind < 11: // no route
		q.Method = simfw.Pick(r, []string{"GET", "POST", "DELETE"})
		q.Path = simfw.Pick(r, []string{"/nope/" + rq, base + "/pong", base + "/items/1/extra", "/other/items/3"})
		if q.Method == "DELETE" {
			q.Path = base + "/items/3" // declared path, undeclared method
		}
		if d.ServerBase && r.Bool() {
			q.Path = "/items/3" // declared path outside the declared server base
			q.Method = "GET"
		}
		if d.ServerHost && r.Chance(2, 3) {
			// a declared method and path, asked of a host the document does not declare
			q.Method = "GET"
			q.Path = base + simfw.Pick(r, []string{"/ping", "/items/7"})
			q.Host = "evil.test"
		}
		q.Intent = "noroute"
		if r.Bool() {
			q.HasBody = true
			q.Body = `{"name":"` + rq + `"}`
			q.Headers = append(q.Headers, [2]string{"Content-Type", "application/json"})
		}
	default:
		goodPost()
		why := simfw.Pick(r, []string{"path", "path_min", "query", "header_missing", "header_enum", "json", "schema", "nobody", "ct", "auth", "extra", "query_obj"})
		switch why {
		case "path":
			q.Path = base + "/items/abc"
		case "path_min":
			q.Path = base + "/items/0"
		case "query":
			q.Query = "q=a"
		case "query_obj":
			if !d.ObjParam {
				q.Query = "q=a"
				why = "query"
			} else {
				q.Query = "color=R,100,G" // an odd number of items cannot be an object
			}
		case "header_missing":
			if !d.ReqHeader {
				q.Path = base + "/items/abc"
				why = "path"
			} else {
				q.Headers = dropHeader(q.Headers, "X-Req")
			}
		case "header_enum":
			if !d.ReqHeader {
				q.Query = "q=a"
				why = "query"
			} else {
				q.Headers = setHeader(q.Headers, "X-Req", "zzz")
			}
		case "json":
			q.Body = `{"name":"` + rq
		case "schema":
			q.Body = simfw.Pick(r, []string{`{"name":""}`, `{"n":3}`, `{"name":"` + rq + `","n":"many"}`, `[1,2]`, `"` + rq + `"`})
		case "extra":
			q.Body = `{"name":"` + rq + `","zzz":1}`
		case "nobody":
			if r.Bool() {
				q.HasBody = false
				q.Body = ""
			} else {
				q.Body = ""
			}
		case "ct":
			q.Headers = setHeader(q.Headers, "Content-Type", simfw.Pick(r, []string{"text/xml", "application/x-www-form-urlencoded", ""}))
		case "auth":
			if !d.Secured {
				q.Body = `{"name":""}`
				why = "schema"
			}
			// the credential is judged by the callback; see Spec.Auth and authOutcome
		}
		q.Intent = "invalid:" + why
	}
	if q.HasBody {
		q.Chunk = chunkPlan(r, len(q.Body), false)
		if faultOK && len(q.Body) > 1 && r.Chance(1, 3) {
			q.Chunk = chunkPlan(r, len(q.Body), true)
		}
		q.GetBody = simfw.Pick(r, []string{"", "", "ok", "err"})
		q.CLUnknown = r.Chance(1, 4)
	}
	op := "postItem"
	if q.Method == "HEAD" || (q.Method == "POST" && strings.HasSuffix(q.Path, "/ping")) {
		op = "ping"
	}
	if q.Method == "GET" {
		op = "getItem"
		if strings.HasSuffix(q.Path, "/ping") {
			op = "ping"
		}
	}
	q.Script, q.RespIntent = s.script(r, op, mk)
	if q.Method == "HEAD" {
		q.RespIntent = "unknown" // responses to HEAD are not checked
	}
	if faultOK && r.Chance(1, 5) {
		q.Client.WriteErrAt = r.Range(1, 30)
		q.Client.Short = r.Bool()
	}
	q.Client.NoFlusher = r.Chance(1, 5)
	return q
}

func dropHeader(h [][2]string, k string) [][2]string {
	var out [][2]string
	for _, kv := range h {
		if kv[0] != k {
			out = append(out, kv)
		}
	}
	return out
}

func setHeader(h [][2]string, k, v string) [][2]string {
	out := dropHeader(h, k)
	if v != "" {
		out = append(out, [2]string{k, v})
	}
	return out
}

// Gen expands a run seed into a run spec.
func Gen(seed uint64, tier string) *Spec {
	r := simfw.NewRNG(seed)
	s := &Spec{Marker: fmt.Sprintf("MK%012x", seed&0xffffffffffff)}
	s.Doc = DocParams{
		Secured: r.Bool(), ReqHeader: r.Bool(), RespHeader: r.Bool(), Class4xx: r.Bool(),
		Default: r.Chance(1, 3), ServerBase: r.Chance(1, 3), BodyDefault: r.Chance(1, 4), ObjParam: r.Chance(1, 3),
	}
	s.Router = simfw.Pick(r, []string{"gorilla", "legacy"})
	switch r.Intn(10) {
	case 0:
		s.Kind = "vh_serve"
	case 1:
		s.Kind = "vh_mw"
	default:
		s.Kind = "validator"
	}
	if s.Kind == "validator" && s.Router == "gorilla" && !s.Doc.ServerBase && r.Chance(1, 3) {
		s.Doc.ServerHost = true
	}
	if s.Kind == "validator" {
		s.Strict = r.Bool()
		s.ErrFunc = simfw.Pick(r, []string{"default", "default", "record", "silent", "alt"})
		s.LogFunc = simfw.Pick(r, []string{"default", "record"})
		s.MultiError = r.Chance(1, 3)
		s.Rewrap = r.Chance(1, 5)
		s.ExclRespBody = r.Chance(1, 6)
		s.InclRespStatus = r.Chance(1, 6)
	} else {
		s.Router = "legacy"
		s.Encoder = simfw.Pick(r, []string{"default", "validation", "record"})
		s.VHOrder = simfw.Pick(r, []string{"", "", "mw_first", "reload"})
	}
	s.Auth = simfw.Pick(r, []string{"ok", "ok", "read_ok", "read_ok", "fail", "read_fail", "none", "panic"})
	if s.Kind != "validator" && s.Auth == "none" {
		s.Auth = "ok" // the older handler installs a no-op callback itself
	}
	if r.Chance(1, 3) {
		s.MapSeed = r.Uint64() | 1
	}
	n := r.Range(1, 4)
	for i := 0; i < n; i++ {
		last := i == n-1
		s.Reqs = append(s.Reqs, s.request(r, i, !last))
	}
	// the last request of a history is fault-free: no handler crash
	if n := len(s.Reqs); n > 0 {
		var kept []simenv.HOp
		for _, op := range s.Reqs[n-1].Script.Ops {
			if op.Op != "abort" {
				kept = append(kept, op)
			}
		}
		s.Reqs[n-1].Script.Ops = kept
		if s.Reqs[n-1].RespIntent == "aborted" {
			s.Reqs[n-1].RespIntent = "unknown"
		}
	}
	// an "invalid:auth" request needs a failing callback to be invalid
	for i := range s.Reqs {
		if s.Reqs[i].Intent == "invalid:auth" && (s.Auth == "ok" || s.Auth == "read_ok") {
			s.Auth = simfw.Pick(r, []string{"fail", "read_fail"})
		}
	}
	return s
}
