package mw

import (
	"bytes"
	"context"
	"encoding/json"
	"errors"
	"fmt"
	"io"
	"net/http"
	"strings"

	"github.com/getkin/kin-openapi/openapi3"
	"github.com/getkin/kin-openapi/openapi3filter"
	"github.com/getkin/kin-openapi/routers"
	"github.com/getkin/kin-openapi/zzsimrt"

	"verif/simenv"
	"verif/simfw"
)

const Prop = "C14"

type Sim struct{}

func (Sim) Name() string         { return "mw" }
func (Sim) Properties() []string { return []string{Prop} }
func (Sim) Gen(seed uint64, prop, tier string) any {
	return Gen(seed, tier)
}
func (Sim) Components() (real, stub []string) {
	return []string{
			"openapi3filter.Validator.Middleware + strict/warn response wrappers",
			"openapi3filter.ValidationHandler (Load, ServeHTTP, Middleware), DefaultErrorEncoder, ValidationErrorEncoder",
			"openapi3filter.ValidateRequest / ValidateResponse, routers/gorillamux, routers/legacy, gorilla/mux",
			"openapi3 loader, document validation, YAML/JSON decoding, net/http request/header types",
		}, []string{
			"client connection (http.ResponseWriter/Flusher model of net/http server semantics)",
			"wrapped handler (scripted)", "request body stream (chunk plan + faults)",
			"AuthenticationFunc / ErrFunc / LogFunc / ErrorEncoder callbacks", "file system behind ValidationHandler.Load",
		}
}
func (Sim) Assumptions() []string {
	return []string{
		"client-writer model encodes net/http ResponseWriter semantics as documented (first final WriteHeader wins, implicit 200, 1xx informational, no body for 1xx/204/304, invalid code panics)",
		"the verdict 'request/response is valid' is taken from the same library build in a neutral environment (fresh document, single in-memory chunk, non-reading callback) and cross-checked against the generator's construction intent",
		"headers inspected by response validation are only set before the first WriteHeader/Write; Flush never precedes the header decision in strict mode",
	}
}

func init() { simfw.Register(Sim{}) }

type errCall struct {
	status int
	code   int
	err    error
}

func (e errCall) String() string {
	return fmt.Sprintf("(status %d, code %d, err-nil=%v)", e.status, e.code, e.err == nil)
}

// authOutcome decides whether the callback accepts, and whether it reads.
// authCrashed: the scripted callback panicked during the request being served.
var authCrashed bool

func authFunc(mode string, party *string, log *simfw.Log, calls *int, sawFull *[]int, want func() int) openapi3filter.AuthenticationFunc {
	return func(ctx context.Context, in *openapi3filter.AuthenticationInput) error {
		*calls++
		prev := *party
		*party = "auth"
		defer func() { *party = prev }()
		if strings.HasPrefix(mode, "read") {
			if b := in.RequestValidationInput.Request.Body; b != nil {
				data, _ := io.ReadAll(b)
				*sawFull = append(*sawFull, len(data))
			}
		}
		log.Add("auth", "callback", in.SecuritySchemeName, mode)
		if mode == "panic" {
			authCrashed = true
			panic("the authentication backend crashed")
		}
		if strings.HasSuffix(mode, "fail") {
			return errors.New("credential rejected")
		}
		return nil
	}
}

// validatorOptions: Auth "none" configures the validator without any
// AuthenticationFunc (a secured operation can then not be validated).
func validatorOptions(s Spec, auth openapi3filter.AuthenticationFunc) openapi3filter.Options {
	o := openapi3filter.Options{MultiError: s.MultiError, AuthenticationFunc: auth, ExcludeResponseBody: s.ExclRespBody, IncludeResponseStatus: s.InclRespStatus}
	if s.Auth == "none" {
		o.AuthenticationFunc = nil
	}
	return o
}

func buildRequest(q Req, log *simfw.Log, party *string) (*http.Request, *simenv.Stream) {
	u := "http://sim.test" + q.Path
	if q.Query != "" {
		u += "?" + q.Query
	}
	req, err := http.NewRequest(q.Method, u, nil)
	if err != nil {
		// keep Run total over shrunken specs
		req, _ = http.NewRequest("GET", "http://sim.test/", nil)
	}
	serverSide(req)
	if q.Host != "" {
		req.Host = q.Host
	}
	for _, h := range q.Headers {
		req.Header.Add(h[0], h[1])
	}
	var st *simenv.Stream
	if q.HasBody {
		st = simenv.NewStream("reqbody", []byte(q.Body), q.Chunk, log, party)
		req.Body = st
		req.ContentLength = int64(len(q.Body))
		if q.CLUnknown {
			req.ContentLength = -1
		}
		switch q.GetBody {
		case "ok":
			body := []byte(q.Body)
			req.GetBody = func() (io.ReadCloser, error) { return io.NopCloser(bytes.NewReader(body)), nil }
		case "err":
			req.GetBody = func() (io.ReadCloser, error) { return nil, errors.New("GetBody unavailable") }
		}
	}
	return req, st
}

func neutralRequest(q Req) *http.Request {
	u := "http://sim.test" + q.Path
	if q.Query != "" {
		u += "?" + q.Query
	}
	var body io.Reader
	if q.HasBody {
		body = bytes.NewReader([]byte(q.Body))
	}
	req, err := http.NewRequest(q.Method, u, body)
	if err != nil {
		req, _ = http.NewRequest("GET", "http://sim.test/", nil)
	}
	serverSide(req)
	if q.Host != "" {
		req.Host = q.Host
	}
	for _, h := range q.Headers {
		req.Header.Add(h[0], h[1])
	}
	return req
}

// serverSide gives the request the shape a net/http server hands to a
// middleware: a URL without scheme and host, Host and RequestURI set.
func serverSide(req *http.Request) {
	req.Host = req.URL.Host
	req.URL.Scheme, req.URL.Host = "", ""
	req.RequestURI = req.URL.RequestURI()
}

// reference runs the script directly against a client connection.
func reference(q Req, plan simenv.ClientPlan, noFlusher bool) (*simenv.Client, http.Header) {
	plan.NoFlusher = plan.NoFlusher || noFlusher
	c := simenv.NewClient(&simfw.Log{}, plan, q.Method)
	req := neutralRequest(q)
	var rec simenv.HandlerRec
	func() {
		defer func() { recover() }()
		q.Script.Serve(c.Writer(), req, &simfw.Log{}, &rec, nil)
	}()
	live := c.Header().Clone()
	c.Finalise()
	return c, live
}

var compareHeaders = []string{"Content-Type", "X-Rate"}

func (Sim) Run(raw json.RawMessage, prop string, keep bool) (res simfw.Result) {
	var s Spec
	if err := json.Unmarshal(raw, &s); err != nil {
		res.Inconcl = "bad spec: " + err.Error()
		return
	}
	log := &simfw.Log{Keep: keep}
	defer func() {
		res.Steps = log.Len()
		res.LogHash = log.Hash()
		if keep {
			res.Events = log.Events
		}
	}()
	zzsimrt.ResetMapOrder(0)

	yaml := s.Doc.YAML()
	routerKind := s.Router
	if s.Kind != "validator" {
		routerKind = "legacy"
	}
	world, err := LoadWorld(yaml, routerKind)
	if err != nil {
		res.Inconcl = "world: " + err.Error()
		return
	}
	neutral, err := LoadWorld(yaml, routerKind)
	if err != nil {
		res.Inconcl = "neutral world: " + err.Error()
		return
	}

	party := "validator"
	var (
		errCalls   []errCall
		encCalls   []error
		logCalls   int
		authCalls  int
		authSaw    []int
		cur        *Req
		rec        *simenv.HandlerRec
		curClient  *simenv.Client
		callsIn    int
		callsOut   int
		decoyCalls int    // calls of the handler behind the validator's other wrapper (must stay 0)
		outStatus  int    // final status committed to the client when the handler returned (0: none)
		outBody    string // body bytes the client had received by then
	)
	handler := http.HandlerFunc(func(w http.ResponseWriter, r *http.Request) {
		callsIn = curClient.Calls
		defer func() {
			callsOut = curClient.Calls
			outStatus, outBody = curClient.Status, curClient.Body.String()
		}()
		cur.Script.Serve(w, r, log, rec, &party)
	})
	auth := authFunc(s.Auth, &party, log, &authCalls, &authSaw, nil)

	var mwh http.Handler
	switch s.Kind {
	case "validator":
		opts := []openapi3filter.ValidatorOption{
			openapi3filter.Strict(s.Strict),
			openapi3filter.ValidationOptions(validatorOptions(s, auth)),
		}
		switch s.ErrFunc {
		case "record":
			opts = append(opts, openapi3filter.OnErr(func(_ context.Context, w http.ResponseWriter, status int, code openapi3filter.ErrCode, err error) {
				errCalls = append(errCalls, errCall{status, int(code), err})
				log.Add("errfunc", "call", fmt.Sprintf("%d/%d", status, code), "")
				http.Error(w, "EF "+fmt.Sprint(int(code)), status)
			}))
		case "silent":
			opts = append(opts, openapi3filter.OnErr(func(_ context.Context, w http.ResponseWriter, status int, code openapi3filter.ErrCode, err error) {
				errCalls = append(errCalls, errCall{status, int(code), err})
				log.Add("errfunc", "call", fmt.Sprintf("%d/%d", status, code), "silent")
			}))
		case "alt":
			opts = append(opts, openapi3filter.OnErr(func(_ context.Context, w http.ResponseWriter, status int, code openapi3filter.ErrCode, err error) {
				errCalls = append(errCalls, errCall{status, int(code), err})
				log.Add("errfunc", "call", fmt.Sprintf("%d/%d", status, code), "alt")
				w.Header().Set("Content-Type", "text/plain")
				w.WriteHeader(http.StatusServiceUnavailable)
				io.WriteString(w, "alt error page")
			}))
		}
		if s.LogFunc == "record" {
			opts = append(opts, openapi3filter.OnLog(func(_ context.Context, msg string, err error) {
				logCalls++
				log.Add("logfunc", "call", msg[:min(len(msg), 24)], "")
			}))
		}
		v := openapi3filter.NewValidator(world.Router, opts...)
		if s.Rewrap {
			// one Validator in front of two handlers: requests go through the second wrapper
			_ = v.Middleware(http.HandlerFunc(func(http.ResponseWriter, *http.Request) { decoyCalls++ }))
			res.Probe("validator-wraps-two-handlers")
		}
		mwh = v.Middleware(handler)
	default:
		path := "/simfs/" + s.Marker + "/doc.yaml"
		zzsimrt.ReadFileFunc = func(name string) ([]byte, error, bool) {
			log.Add("fs", "read", name, "")
			if name == path {
				return []byte(yaml), nil, true
			}
			return nil, fmt.Errorf("open %s: no such file or directory", name), true
		}
		defer func() { zzsimrt.ReadFileFunc = nil }()
		vh := &openapi3filter.ValidationHandler{AuthenticationFunc: auth, File: path}
		recEnc := func(base openapi3filter.ErrorEncoder) openapi3filter.ErrorEncoder {
			return func(ctx context.Context, err error, w http.ResponseWriter) {
				encCalls = append(encCalls, err)
				log.Add("encoder", "call", fmt.Sprintf("%T", err), "")
				base(ctx, err, w)
			}
		}
		switch s.Encoder {
		case "validation":
			vh.ErrorEncoder = recEnc((&openapi3filter.ValidationErrorEncoder{Encoder: openapi3filter.DefaultErrorEncoder}).Encode)
		case "record":
			vh.ErrorEncoder = recEnc(openapi3filter.DefaultErrorEncoder)
		}
		if s.Kind == "vh_serve" {
			vh.Handler = handler
		}
		// the order in which the handler is put together: Load then Middleware (the usual one), Middleware
		// before Load, or a second Load of another document after the chain has been built. Requests are
		// served afterwards in every case, so the document in force is the last one loaded.
		wrap := func() {
			if s.Kind == "vh_serve" {
				mwh = vh
			} else {
				mwh = vh.Middleware(handler)
			}
		}
		switch s.VHOrder {
		case "mw_first":
			wrap()
			res.Probe("vh-middleware-before-load")
		case "reload":
			// (the same document at another path: whether a second Load replaces the document in force is an API
			// question the property does not settle; that the chain still works after one is what is exercised)
			otherYAML, otherPath := yaml, "/simfs/"+s.Marker+"/earlier.yaml"
			prev := zzsimrt.ReadFileFunc
			zzsimrt.ReadFileFunc = func(name string) ([]byte, error, bool) {
				if name == otherPath {
					log.Add("fs", "read", name, "")
					return []byte(otherYAML), nil, true
				}
				return prev(name)
			}
			vh.File = otherPath
			if err := vh.Load(); err != nil {
				res.Inconcl = "vh load (earlier document): " + err.Error()
				return
			}
			wrap()
			vh.File = path
			res.Probe("vh-reload")
		}
		if err := vh.Load(); err != nil {
			res.Inconcl = "vh load: " + err.Error()
			return
		}
		if mwh == nil {
			wrap()
		}
	}

	shapeKinds := []string{}
	for i := range s.Reqs {
		q := s.Reqs[i]
		cur = &q
		rec = &simenv.HandlerRec{}
		errCalls, encCalls = nil, nil
		authCalls = 0
		party = "validator"
		authCrashed = false
		log.Add("sim", "request", fmt.Sprintf("#%d %s %s", i, q.Method, q.Path), q.Intent)
		req, st := buildRequest(q, log, &party)
		client := simenv.NewClient(log, q.Client, q.Method)
		curClient = client
		callsIn, callsOut = 0, 0
		outStatus, outBody = 0, ""
		var panicked any
		func() {
			defer func() { panicked = recover() }()
			zzsimrt.ResetMapOrder(s.MapSeed)
			defer zzsimrt.ResetMapOrder(0)
			mwh.ServeHTTP(client.Writer(), req)
		}()
		callsAtReturn := client.Calls
		client.Finalise()
		if decoyCalls > 0 {
			res.Violate(Prop, "gate", fmt.Sprintf("%s/wrong-handler", Prop), fmt.Sprintf("req #%d: the request went through the validator's second wrapper, yet the handler behind its first wrapper was invoked (%d calls)", i, decoyCalls))
			decoyCalls = 0
			continue
		}
		if authCrashed {
			// the callback panicked: whatever becomes of the panic, the request was not authenticated
			res.Fault("auth_callback_panic")
			if rec.Entered > 0 {
				res.Violate(Prop, "gate", fmt.Sprintf("%s/gate-auth-crash:%s", Prop, s.Kind), fmt.Sprintf("req #%d: the authentication callback crashed, yet the handler was invoked", i))
			}
			continue
		}
		shape := q.Script.ShapeClass()
		sig := func(o string) string {
			mode := s.Kind
			if s.Kind == "validator" {
				if s.Strict {
					mode = "strict"
				} else {
					mode = "warn"
				}
			}
			return fmt.Sprintf("%s/%s:%s", Prop, o, mode+"/"+shape)
		}
		if rec.Aborted {
			// (by what the script did, not by the panic value: a middleware may recover the handler's panic,
			// clean up and panic again with a value of its own)
			// the scripted handler crashed: the panic is the handler's, not the middleware's. Nothing of the
			// response is judged, except that strict mode had not let anything through; the following requests
			// of the history show whether the crash left anything behind in the middleware.
			res.Fault("handler_abort")
			// (only the handler's own body bytes count: what else the middleware tells the client about a
			// crashed handler is outside the property)
			if s.Kind == "validator" && s.Strict {
				for _, op := range q.Script.Ops {
					if op.Op == "write" && len(op.Data) >= 8 && !strings.Contains(q.Body, op.Data) && strings.Contains(outBody, op.Data) {
						res.Violate(Prop, "strict-early", sig("strict-early-write"), fmt.Sprintf("req #%d: the handler crashed, and its bytes %q had already reached the client in strict mode, before any validation", i, op.Data))
						break
					}
				}
			}
			_ = callsAtReturn
			continue
		}
		if panicked != nil {
			res.Probe("panic")
			res.Violate(Prop, "no-panic", sig("panic"), fmt.Sprintf("req #%d: panic escaped ServeHTTP: %v", i, panicked))
			continue
		}

		// ---- neutral verdict --------------------------------------------
		nreq := neutralRequest(q)
		nAuthFails := strings.HasSuffix(s.Auth, "fail") || s.Auth == "none" || s.Auth == "panic" // without a callback (or with a crashing one) no scheme is accepted
		nopts := &openapi3filter.Options{MultiError: s.MultiError && s.Kind == "validator", ExcludeResponseBody: s.ExclRespBody && s.Kind == "validator", IncludeResponseStatus: s.InclRespStatus && s.Kind == "validator", AuthenticationFunc: func(context.Context, *openapi3filter.AuthenticationInput) error {
			if nAuthFails {
				return errors.New("credential rejected")
			}
			return nil
		}}
		if s.Auth == "none" && s.Kind == "validator" {
			nopts.AuthenticationFunc = nil
		}
		route, pathParams, rerr := neutral.Router.FindRoute(nreq)
		var verr error
		var rvi *openapi3filter.RequestValidationInput
		if rerr == nil {
			rvi = &openapi3filter.RequestValidationInput{Request: nreq, PathParams: pathParams, Route: route, Options: nopts}
			verr = openapi3filter.ValidateRequest(context.Background(), rvi)
		}
		expect := "pass"
		switch {
		case rerr != nil:
			expect = "404"
		case verr != nil:
			expect = "400"
		}
		// construction intent (independent of the library)
		intent := q.Intent
		if intent == "valid" && q.Method == "POST" && strings.Contains(q.Path, "/items/") && s.Doc.Secured && nAuthFails {
			intent = "invalid:auth"
		}
		if intent == "invalid:auth" && !nAuthFails {
			intent = "valid"
		}
		wantByIntent := "pass"
		switch {
		case intent == "noroute":
			wantByIntent = "404"
		case strings.HasPrefix(intent, "invalid"):
			wantByIntent = "400"
		}
		streamFaultSeen := st != nil && st.FaultFired && st.FaultSeenBy != "handler"
		if st != nil && st.FaultFired {
			res.Fault("reqbody_" + q.Chunk.FaultKind)
		}
		if wantByIntent != expect {
			res.Violate(Prop, "intent", fmt.Sprintf("%s/intent:%s-vs-%s/%s", Prop, wantByIntent, expect, strings.SplitN(intent, ":", 2)[0]),
				fmt.Sprintf("req #%d (%s %s): built as %q but the library's own FindRoute/ValidateRequest says %s (route err=%v, validation err=%v)", i, q.Method, q.Path, intent, expect, rerr, verr))
		}
		if streamFaultSeen && expect == "pass" && route != nil && route.Operation != nil && route.Operation.RequestBody != nil {
			// the validator itself observed the stream error while the operation declares a body to validate: it must reject
			expect = "400"
			res.Probe("fault-seen-by-validator")
			if q.GetBody == "ok" && rec.Entered > 0 {
				// (unless it went back to the request's GetBody, which yields the complete body: then passing
				// what the intact request deserves is right)
				expect = "pass"
				res.Probe("fault-recoverable-through-getbody")
			}
		}
		res.Probe("expect-" + expect)

		invoked := rec.Entered > 0
		if rec.Entered > 1 {
			res.Violate(Prop, "gate", sig("handler-twice"), fmt.Sprintf("req #%d: handler entered %d times", i, rec.Entered))
		}
		// 1. gating
		if invoked != (expect == "pass") {
			res.Violate(Prop, "gate", sig("gate-"+expect), fmt.Sprintf("req #%d (%s %s, intent %s): handler invoked=%v but route/validation verdict is %s (route err=%v, validation err=%v, stream fault seen by validator=%v)",
				i, q.Method, q.Path, intent, invoked, expect, rerr, verr, streamFaultSeen))
			continue
		}
		pieces := []string{}
		for _, op := range q.Script.Ops {
			if op.Op == "write" && len(op.Data) >= 8 && !strings.Contains(q.Body, op.Data) {
				pieces = append(pieces, op.Data)
			}
		}
		mk := fmt.Sprintf("%s-%d", s.Marker, i)
		leaks := func(body string) string {
			for _, p := range pieces {
				if strings.Contains(body, p) {
					return p
				}
			}
			// any marker-carrying fragment of a handler write
			for _, op := range q.Script.Ops {
				if op.Op == "write" && strings.Contains(op.Data, mk) && strings.Contains(body, mk) {
					return mk
				}
			}
			return ""
		}

		if !invoked {
			// 2. the middleware answers itself
			wantStatus := 404
			if expect == "400" {
				wantStatus = 400
			}
			// "the not-found error": for a known path with another method, 405 says the same more precisely
			statusOK := func(st int) bool {
				return st == wantStatus || (expect == "404" && st == 405 && errors.Is(rerr, routers.ErrMethodNotAllowed))
			}
			if l := leaks(client.Body.String()); l != "" {
				res.Violate(Prop, "self-answer", sig("handler-bytes-without-handler"), fmt.Sprintf("req #%d: client body %q contains handler bytes %q", i, client.Body.String(), l))
			}
			switch s.Kind {
			case "validator":
				if s.ErrFunc != "default" {
					wantCode := int(openapi3filter.ErrCodeCannotFindRoute)
					if expect == "400" {
						wantCode = int(openapi3filter.ErrCodeRequestInvalid)
					}
					bad := len(errCalls) == 0
					for _, c := range errCalls {
						if !statusOK(c.status) || c.code != wantCode || c.err == nil {
							bad = true
						}
					}
					if bad {
						res.Violate(Prop, "self-answer", sig("errfunc-"+expect), fmt.Sprintf("req #%d: ErrFunc calls=%v, want the request's rejection (%d, code %d, non-nil error)", i, errCalls, wantStatus, wantCode))
					}
				}
				if s.ErrFunc == "default" || s.ErrFunc == "record" {
					if !statusOK(client.Status) {
						res.Violate(Prop, "self-answer", sig("status-"+expect), fmt.Sprintf("req #%d: client status %d, want %d", i, client.Status, wantStatus))
					}
				}
			default:
				if s.Encoder != "default" && s.Encoder != "" {
					if len(encCalls) != 1 || encCalls[0] == nil {
						res.Violate(Prop, "self-answer", sig("encoder-calls"), fmt.Sprintf("req #%d: ErrorEncoder calls=%d, want 1", i, len(encCalls)))
					} else {
						var re *routers.RouteError
						isRoute := errors.As(encCalls[0], &re)
						if (expect == "404") != isRoute {
							res.Violate(Prop, "self-answer", sig("encoder-errkind"), fmt.Sprintf("req #%d: encoder got %T (%v), expected route error=%v", i, encCalls[0], encCalls[0], expect == "404"))
						}
					}
				}
				if client.Status < 400 {
					res.Violate(Prop, "self-answer", sig("status-"+expect), fmt.Sprintf("req #%d: rejected request answered with status %d", i, client.Status))
				}
				if s.Encoder == "validation" && expect == "404" && client.Status != 404 && client.Status != 405 {
					res.Violate(Prop, "self-answer", sig("status-404"), fmt.Sprintf("req #%d: no route, client status %d", i, client.Status))
				}
			}
			res.Probe("rejected-" + expect)
			continue
		}

		// ---- handler ran -------------------------------------------------
		shapeKinds = append(shapeKinds, shape)
		res.Probe("shape-" + shape)
		strict := s.Kind == "validator" && s.Strict
		refFault, _ := reference(q, q.Client, strict)
		if refFault.FaultFired || client.FaultFired {
			res.Fault("client_write_err")
		}
		got := client.View(compareHeaders)
		if !strict {
			// 3. pass-through unchanged (non-strict validator, and the request-only older handler)
			want := refFault.View(compareHeaders)
			if got != want {
				res.Violate(Prop, "pass-through", sig("passthrough"), fmt.Sprintf("req #%d: client saw %+v; the same handler run directly produces %+v", i, got, want))
			}
			res.Probe("pass-through")
			if len(errCalls) != 0 {
				res.Violate(Prop, "pass-through", sig("errfunc-in-warn"), fmt.Sprintf("req #%d: ErrFunc called %d times in non-strict mode", i, len(errCalls)))
			}
			continue
		}
		// 4. strict
		refClean, liveHdr := reference(q, simenv.ClientPlan{}, true)
		R := refClean.View(compareHeaders)
		rverr := openapi3filter.ValidateResponse(context.Background(), &openapi3filter.ResponseValidationInput{
			RequestValidationInput: rvi,
			Status:                 R.Status,
			Header:                 liveHdr,
			Body:                   io.NopCloser(strings.NewReader(R.Body)),
			Options:                nopts,
		})
		// (with the response options on, "valid by construction" no longer says what the validator is asked to check)
		if !s.ExclRespBody && !s.InclRespStatus && (q.RespIntent == "valid" && rverr != nil || q.RespIntent == "invalid" && rverr == nil) {
			res.Violate(Prop, "intent", fmt.Sprintf("%s/resp-intent:%s", Prop, q.RespIntent),
				fmt.Sprintf("req #%d: response built as %s (status %d, body %q) but ValidateResponse says %v", i, q.RespIntent, R.Status, R.Body, rverr))
		}
		// an invalid response: by the time the handler returned, neither a final non-error status nor any of
		// its bytes may have been committed (what is committed cannot be replaced). Interim responses, and
		// anything at all for a valid response, are not the property's business.
		if rverr != nil && callsOut != callsIn {
			if l := leaks(outBody); l != "" || (outStatus != 0 && outStatus < 500) {
				res.Violate(Prop, "strict-early", sig("strict-early-write"), fmt.Sprintf("req #%d: while the handler was still running, status %d and body %q had already been committed to the client; the response is invalid (%v) and can no longer be replaced", i, outStatus, simfw.Trunc(outBody, 80), rverr))
			}
		}
		if rverr == nil {
			want := refFault.View(compareHeaders)
			if got.Status != want.Status || got.Body != want.Body {
				res.Violate(Prop, "strict-valid", sig("strict-valid-altered"), fmt.Sprintf("req #%d: valid handler response (status %d, body %q) reached the client as (status %d, body %q)", i, want.Status, want.Body, got.Status, got.Body))
			}
			if len(errCalls) != 0 {
				res.Violate(Prop, "strict-valid", sig("errfunc-on-valid"), fmt.Sprintf("req #%d: ErrFunc called for a valid response: %v", i, errCalls))
			}
			res.Probe("strict-pass")
		} else {
			res.Probe("strict-500")
			if l := leaks(client.Body.String()); l != "" {
				res.Violate(Prop, "strict-invalid", sig("strict-leak-body"), fmt.Sprintf("req #%d: invalid handler response replaced, yet client body %q contains handler bytes %q", i, client.Body.String(), l))
			}
			if s.ErrFunc != "default" {
				bad := len(errCalls) == 0
				for _, c := range errCalls {
					if c.status < 500 || c.status > 599 || c.code != int(openapi3filter.ErrCodeResponseInvalid) || c.err == nil {
						bad = true
					}
				}
				if bad {
					res.Violate(Prop, "strict-invalid", sig("errfunc-500"), fmt.Sprintf("req #%d: ErrFunc calls=%v, want a server error (5xx, response-invalid)", i, errCalls))
				}
			}
			if s.ErrFunc == "default" || s.ErrFunc == "record" {
				if client.Status < 500 || client.Status > 599 {
					res.Violate(Prop, "strict-invalid", sig("strict-leak-status"), fmt.Sprintf("req #%d: invalid handler response (handler status %d): client status %d, want a server error", i, R.Status, client.Status))
				}
			}
		}
	}
	_ = logCalls
	_ = openapi3.ParameterInPath
	res.Class = simfw.ClassKey(s.Kind, s.Strict, s.ErrFunc, s.Doc.Key(), s.Router, len(s.Reqs), strings.Join(shapeKinds, ","), s.Auth, s.MultiError)
	res.Nontrivial = len(s.Reqs) > 0
	return
}
