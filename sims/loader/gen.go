// Package loader is SIM-LOADER (DESIGN.md §3): the document loader driven over
// a simulated file system and HTTP servers, with every read it issues observed
// at the storage seam and checked against the justified-location set (C11),
// plus the fault/termination clauses of C02.
package loader

import (
	"fmt"
	"net/url"
	"path"
	"strings"

	"verif/simenv"
	"verif/simfw"
)

// File is one document of the layout. Index 0 is the root.
type File struct {
	Host string `json:"host,omitempty"` // "" = same place as the root; "h1" = second HTTP host
	Path string `json:"path"`           // slash path below the base
	Kind string `json:"kind"`           // whole | single:<kind> | free
	Doc  any    `json:"doc"`
	YAML bool   `json:"yaml,omitempty"` // stored as YAML text (a prefix cut at a line boundary may still parse)
}

// Spec is the run spec of SIM-LOADER.
type Spec struct {
	Marker           string             `json:"marker"`
	RootUser         string             `json:"root_user,omitempty"` // http(s) root forms: credentials in the root's URL (files next to the root are served under them)
	RootForm         string             `json:"root_form"`           // data | reader | data_path_abs | data_path_http | file_rel | file_abs | file_url | http | https
	Reader           string             `json:"reader"`              // func | default
	External         bool               `json:"external"`            // IsExternalRefsAllowed
	Reuse            bool               `json:"reuse,omitempty"`
	RootFragRefs     []string           `json:"root_frag_refs,omitempty"`      // fragment references planted in the root at positions the loader visits whose fragment may not exist in the target
	ThenResolveOff   bool               `json:"then_resolve_off,omitempty"`    // afterwards, on the same Loader: switch turned off, root unmarshalled by the caller, ResolveRefsIn(doc, location)
	Stdin            bool               `json:"stdin,omitempty"`               // root form "reader": through LoadFromStdin (standard input is the simulator's)
	ViaResolveRefsIn bool               `json:"via_resolve_refs_in,omitempty"` // data_path_* roots: the caller unmarshals the document and calls ResolveRefsIn(doc, location)
	ElemFragRefs     bool               `json:"elem_frag_refs,omitempty"`      // bare element files may hold fragment-only references ("#/components/...")
	ThenOther        bool               `json:"then_other,omitempty"`          // switch off: another document of the layout is loaded afterwards as a root of its own on the same Loader
	ThenMemory       any                `json:"then_memory,omitempty"`         // a document without external references loaded from memory afterwards on the same Loader
	MapSeed          uint64             `json:"map_seed,omitempty"`            // 0 = sorted map iteration inside the loader; else seeded permutation
	Files            []File             `json:"files"`
	Decoys           []string           `json:"decoys,omitempty"`  // paths of files nothing refers to
	Faults           []simenv.ReadFault `json:"faults,omitempty"`  // Loc = "file:<index>"
	Changed          []int              `json:"changed,omitempty"` // file indices whose second read returns different content
}

var plural = map[string]string{
	"schema": "schemas", "parameter": "parameters", "header": "headers", "requestBody": "requestBodies", "response": "responses",
	"securityScheme": "securitySchemes", "example": "examples", "callback": "callbacks", "link": "links",
}

var kinds = []string{"schema", "parameter", "header", "requestBody", "response", "securityScheme", "example", "callback", "link", "pathItem"}

type target struct {
	file int
	frag string // "" for single-element files
	kind string
}

type gen struct {
	r       *simfw.RNG
	s       *Spec
	targets []target
	cur     int // file being built
	extP    int // probability (in 1/100) of an external reference at a slot
	canP    int // probability of a canary-style reference
	unvis   int // >0 while building a position no resolver visits
}

// rel returns the reference text from file i to file j.
func (g *gen) ref(from, to int, frag string) string {
	f, t := g.s.Files[from], g.s.Files[to]
	var base string
	switch {
	case f.Host == t.Host && !(from == 0 && (g.s.RootForm == "data" || g.s.RootForm == "reader")):
		base = esc(relPath(path.Dir(f.Path), t.Path))
		if g.r.Chance(1, 6) && !strings.HasPrefix(base, "../") {
			base = "./" + base
		}
	default:
		base = g.absLoc(to) // cross-host, or from a root that has no location
	}
	if frag != "" {
		return base + "#" + frag
	}
	return base
}

func relPath(fromDir, to string) string {
	fp := strings.Split(path.Clean(fromDir), "/")
	if fromDir == "." || fromDir == "" {
		fp = nil
	}
	tp := strings.Split(path.Clean(to), "/")
	i := 0
	for i < len(fp) && i < len(tp)-1 && fp[i] == tp[i] {
		i++
	}
	var out []string
	for k := i; k < len(fp); k++ {
		out = append(out, "..")
	}
	out = append(out, tp[i:]...)
	return strings.Join(out, "/")
}

// absLoc is the reference text that designates file i absolutely.
func (g *gen) absLoc(i int) string { return AbsLoc(g.s, i) }

// AbsLoc gives the location text of file i: what a reference (or the entry
// point) must say to designate it without a base.
func esc(p string) string { return (&url.URL{Path: p}).EscapedPath() }

func AbsLoc(s *Spec, i int) string {
	f := s.Files[i]
	f.Path = esc(f.Path) // a file name may hold characters that must be escaped in a reference
	if f.Host != "" {
		return fmt.Sprintf("http://%s-%s.test/%s", f.Host, s.Marker, f.Path)
	}
	user := ""
	if s.RootUser != "" {
		user = s.RootUser + "@"
	}
	switch s.RootForm {
	case "http", "data_path_http":
		return fmt.Sprintf("http://%sh0-%s.test/%s", user, s.Marker, f.Path)
	case "https":
		return fmt.Sprintf("https://%sh0-%s.test/%s", user, s.Marker, f.Path)
	case "file_url":
		return fmt.Sprintf("file:///sim/%s/%s", s.Marker, f.Path)
	case "file_abs", "data_path_abs":
		return fmt.Sprintf("/sim/%s/%s", s.Marker, f.Path)
	default: // file_rel, data, reader: relative to the working directory
		return fmt.Sprintf("simrel-%s/%s", s.Marker, f.Path)
	}
}

func (g *gen) canary() string {
	m := g.s.Marker
	// the root's own path on another host / on the local disk: "same path" must not pass for "same document"
	rootPath := "/" + g.s.Files[0].Path
	if u, err := url.Parse(AbsLoc(g.s, 0)); err == nil && u.Path != "" {
		rootPath = u.Path
	}
	if !strings.HasPrefix(rootPath, "/") {
		rootPath = "/" + rootPath
	}
	if g.r.Chance(1, 4) {
		return simfw.Pick(g.r, []string{
			"http://canary-" + m + ".test" + rootPath + "#/components/schemas/Tschema",
			"https://canary-" + m + ".test" + rootPath + "#/components/schemas/Tschema",
			"//canary-" + m + ".test" + rootPath + "#/components/schemas/Tschema",
			rootPath + "#/components/schemas/Tschema",
			"file://" + rootPath + "#/components/schemas/Tschema",
		})
	}
	return simfw.Pick(g.r, []string{
		"decoy-" + m + ".json", "../decoy-" + m + ".json", "../../../../etc/passwd-" + m, "/etc/passwd-" + m, "/sim/" + m + "/decoy.json#/x",
		"http://canary-" + m + ".test/steal.json", "https://canary-" + m + ".test/steal.json#/components/schemas/S", "//canary-" + m + ".test/x.json",
		"file:///etc/shadow-" + m, "sub/../../decoy-" + m + ".json#/a",
		"sub\\..\\..\\decoy-" + m + ".json", "models\\..\\..\\..\\etc\\passwd-" + m + "#/x", // backslashes are ordinary characters in a reference
	})
}

// slot fills a position that holds an object of the given kind.
func (g *gen) slot(kind string, depth int) any {
	roll := g.r.Intn(100)
	switch {
	case roll < g.canP:
		return map[string]any{"$ref": g.canary()}
	case roll < g.canP+g.extP:
		// a target of this kind in another (or, rarely, the same) file
		var cands []target
		for _, t := range g.targets {
			if t.kind == kind {
				cands = append(cands, t)
			}
		}
		if len(cands) > 0 {
			t := simfw.Pick(g.r, cands)
			if t.file == g.cur && t.frag != "" && g.r.Bool() {
				return map[string]any{"$ref": "#" + t.frag}
			}
			if t.file != g.cur {
				frag := t.frag
				if strings.Contains(frag, "{id}") && g.r.Chance(1, 3) {
					// the same path template with another variable name is another key: must not resolve
					frag = strings.Replace(frag, "{id}", "{ident}", 1)
				}
				if strings.HasPrefix(frag, "/components/") && strings.Count(frag, "/") == 3 && g.r.Chance(1, 16) {
					// a pointer that stops one token short names the whole collection, not a member: must not resolve
					frag = frag[:strings.LastIndex(frag, "/")]
				}
				if strings.HasPrefix(frag, "/components/") && g.r.Chance(1, 8) {
					if g.r.Chance(1, 3) {
						// a pointer token that is only a prefix of a real member name: must not resolve
						if pl, ok := plural[kind]; ok {
							frag = strings.Replace(frag, "/components/"+pl+"/", "/components/"+pl[:len(pl)-1]+"/", 1)
						}
					} else {
						// a component that the target file has only sometimes: exercises the
						// missing-fragment path (and its raw re-read fallback)
						frag = strings.Replace(frag, "/T", "/U", 1)
					}
				}
				ref := g.ref(g.cur, t.file, frag)
				if g.cur == 0 && g.unvis == 0 && frag != t.frag {
					g.s.RootFragRefs = append(g.s.RootFragRefs, ref)
				}
				return map[string]any{"$ref": ref}
			}
		}
	case roll < g.canP+g.extP+12:
		// internal reference to a component of this document
		if pl, ok := plural[kind]; ok && g.s.Files[g.cur].Kind == "whole" {
			if g.r.Chance(1, 10) {
				// a component this document has only sometimes: when it has not, the reference dangles and
				// the loader falls back to looking the fragment up in the raw document (which it re-reads)
				return map[string]any{"$ref": "#/components/" + pl + "/U" + kind}
			}
			return map[string]any{"$ref": "#/components/" + pl + "/T" + kind}
		}
		if pl, ok := plural[kind]; ok && strings.HasPrefix(g.s.Files[g.cur].Kind, "single:") && g.s.ElemFragRefs && g.r.Chance(1, 2) {
			// a bare element file that names a component by fragment only (of "the document": shared
			// parameter files written against the root's components do that)
			return map[string]any{"$ref": "#/components/" + pl + "/T" + kind}
		}
	}
	return g.element(kind, depth)
}

// element builds an inline object of the given kind, with nested slots.
func (g *gen) element(kind string, depth int) any {
	d := depth - 1
	switch kind {
	case "schema":
		if depth <= 0 {
			return map[string]any{"type": simfw.Pick(g.r, []string{"string", "integer", "boolean"})}
		}
		switch g.r.Intn(8) {
		case 0:
			return map[string]any{"type": "object", "properties": map[string]any{"p": g.slot("schema", d), "q": g.slot("schema", d)}}
		case 1:
			return map[string]any{"type": "array", "items": g.slot("schema", d)}
		case 2:
			return map[string]any{"type": "object", "additionalProperties": g.slot("schema", d)}
		case 3:
			return map[string]any{"not": g.slot("schema", d)}
		case 4:
			return map[string]any{"allOf": []any{g.slot("schema", d), g.slot("schema", d)}}
		case 5:
			return map[string]any{"anyOf": []any{g.slot("schema", d)}}
		case 6:
			return map[string]any{"oneOf": []any{g.slot("schema", d)}}
		default:
			return map[string]any{"type": "string"}
		}
	case "parameter":
		p := map[string]any{"name": fmt.Sprintf("p%d", g.r.Intn(1000)), "in": "query"}
		if g.r.Chance(1, 4) {
			p["content"] = map[string]any{"application/json": map[string]any{"schema": g.slot("schema", d)}}
		} else {
			p["schema"] = g.slot("schema", d)
		}
		if g.r.Chance(1, 5) {
			g.unvis++
			p["examples"] = map[string]any{"e": g.slot("example", d)} // a position no resolver visits
			g.unvis--
		}
		return p
	case "header":
		h := map[string]any{"schema": g.slot("schema", d)}
		if g.r.Chance(1, 5) {
			g.unvis++
			h["examples"] = map[string]any{"e": g.slot("example", d)} // not visited
			g.unvis--
		}
		return h
	case "requestBody":
		mt := map[string]any{"schema": g.slot("schema", d)}
		if g.r.Chance(1, 3) {
			mt["examples"] = map[string]any{"e": g.slot("example", d)}
		}
		if g.r.Chance(1, 5) {
			g.unvis++
			mt["encoding"] = map[string]any{"p": map[string]any{"headers": map[string]any{"h": g.slot("header", d)}}} // not visited
			g.unvis--
		}
		return map[string]any{"content": map[string]any{"application/json": mt}}
	case "response":
		r := map[string]any{"description": "d"}
		if g.r.Chance(1, 2) {
			r["headers"] = map[string]any{"X-H": g.slot("header", d)}
		}
		if g.r.Chance(2, 3) {
			mt := map[string]any{"schema": g.slot("schema", d)}
			if g.r.Chance(1, 3) {
				mt["examples"] = map[string]any{"e": g.slot("example", d)}
			}
			r["content"] = map[string]any{"application/json": mt}
		}
		if g.r.Chance(1, 3) {
			r["links"] = map[string]any{"l": g.slot("link", d)}
		}
		return r
	case "securityScheme":
		return map[string]any{"type": "http", "scheme": "basic"}
	case "example":
		return map[string]any{"value": map[string]any{"a": 1}}
	case "callback":
		return map[string]any{"{$request.body#/cb}": g.slot("pathItem", d)}
	case "link":
		return map[string]any{"operationId": "op"}
	case "pathItem":
		op := map[string]any{"responses": map[string]any{"200": g.slot("response", d)}}
		if g.r.Chance(1, 2) {
			op["parameters"] = []any{g.slot("parameter", d)}
		}
		if g.r.Chance(1, 3) {
			op["requestBody"] = g.slot("requestBody", d)
		}
		if depth > 1 && g.r.Chance(1, 5) {
			op["callbacks"] = map[string]any{"cb": g.slot("callback", d)}
		}
		pi := map[string]any{"get": op}
		if g.r.Chance(1, 3) {
			pi["parameters"] = []any{g.slot("parameter", d)}
		}
		return pi
	}
	return map[string]any{}
}

// whole builds an OpenAPI document with one component per kind (named
// T<kind>) and a couple of paths.
func (g *gen) whole(isRoot bool) any {
	comps := map[string]any{}
	for _, k := range kinds {
		pl, ok := plural[k]
		if !ok {
			continue
		}
		if k == "link" {
			g.unvis++ // components.links is a position no resolver visits
		}
		m := map[string]any{"T" + k: g.element(k, 3)}
		if g.r.Chance(1, 3) {
			m["U"+k] = g.slot(k, 2)
		}
		if k == "link" {
			g.unvis--
		}
		comps[pl] = m
	}
	paths := map[string]any{"/t": g.element("pathItem", 3), "/things/{id}": g.element("pathItem", 2)}
	if g.r.Chance(1, 2) {
		paths["/u"] = g.slot("pathItem", 3)
	}
	title := "ext"
	if isRoot {
		title = "root"
	}
	return map[string]any{"openapi": "3.0.3", "info": map[string]any{"title": title, "version": "1"}, "paths": paths, "components": comps}
}

func (g *gen) free() any {
	defs := map[string]any{}
	for _, k := range kinds {
		defs[k] = g.element(k, 2)
	}
	return map[string]any{"defs": defs, "note": "free-form"}
}

// Gen expands a run seed into a run spec.
func Gen(seed uint64, prop, tier string) *Spec {
	r := simfw.NewRNG(seed)
	s := &Spec{Marker: fmt.Sprintf("%012x", seed&0xffffffffffff)}
	s.RootForm = simfw.Pick(r, []string{"data", "reader", "data_path_abs", "data_path_http", "file_rel", "file_abs", "file_abs", "file_url", "http", "https"})
	switch s.RootForm {
	case "http", "https", "data_path_http":
		if r.Chance(1, 4) {
			s.RootUser = "ci:s3cret"
		}
	}
	s.ElemFragRefs = r.Chance(1, 4)
	s.ViaResolveRefsIn = strings.HasPrefix(s.RootForm, "data_path") && r.Chance(1, 3)
	s.Stdin = s.RootForm == "reader" && r.Bool()
	s.Reader = simfw.Pick(r, []string{"func", "func", "default"})
	s.External = r.Chance(3, 5)
	s.Reuse = r.Chance(1, 6)
	if r.Chance(1, 3) {
		s.MapSeed = r.Uint64() | 1
	}
	g := &gen{r: r, s: s}
	// layout
	dirs := []string{"", "specs/", "specs/v1/", "common/", "common/deep/er/"}
	rootName := "api.json"
	if (s.RootForm == "file_rel" || s.RootForm == "file_abs") && r.Chance(1, 5) {
		// legal file names that a URL parser would cut or decode
		rootName = simfw.Pick(r, []string{"api#v2.json", "api?draft.json", "api%2Fv2.json"})
	}
	s.Files = append(s.Files, File{Path: simfw.Pick(r, dirs) + rootName, Kind: "whole"})
	if rootName != "api.json" {
		// the neighbours such a parser would end up at
		s.Decoys = append(s.Decoys, "api", "api/v2.json")
	}
	n := r.Range(0, 5)
	for i := 0; i < n; i++ {
		f := File{Path: simfw.Pick(r, dirs) + fmt.Sprintf("f%d.json", i+1)}
		if r.Chance(1, 5) && s.RootForm != "data" && s.RootForm != "reader" {
			f.Host = "h1"
		}
		if r.Chance(1, 8) {
			// a file name with a literal percent sequence: referenced as %25.., decoded exactly once
			f.Path = simfw.Pick(r, dirs) + fmt.Sprintf("q%%2Fr%d.json", i+1)
		}
		switch r.Intn(4) {
		case 0, 1:
			f.Kind = "whole"
		case 2:
			f.Kind = "single:" + simfw.Pick(r, kinds)
		default:
			f.Kind = "free"
		}
		s.Files = append(s.Files, f)
	}
	for i, f := range s.Files {
		if i == 0 && (s.RootForm == "data" || s.RootForm == "reader") {
			// a root loaded from memory has no location: nothing refers back into "its file"
			// (its storage copy would be a second, different document whose working-directory-relative
			// references dangle; excluded from the workload, listed in the evidence)
			continue
		}
		switch {
		case f.Kind == "whole":
			for _, k := range kinds {
				if pl, ok := plural[k]; ok {
					g.targets = append(g.targets, target{i, "/components/" + pl + "/T" + k, k})
				}
			}
			g.targets = append(g.targets, target{i, "/paths/~1t", "pathItem"})
			g.targets = append(g.targets, target{i, "/paths/~1things~1{id}", "pathItem"})
		case strings.HasPrefix(f.Kind, "single:"):
			if i > 0 {
				g.targets = append(g.targets, target{i, "", strings.TrimPrefix(f.Kind, "single:")})
			}
		case f.Kind == "free":
			for _, k := range kinds {
				g.targets = append(g.targets, target{i, "/defs/" + k, k})
			}
		}
	}
	// swarm: reference density and canary density vary per run, so that the first
	// external reference the loader meets sits at a different position each time
	g.extP = simfw.Pick(r, []int{1, 3, 8, 22, 30})
	if s.External {
		g.canP = simfw.Pick(r, []int{0, 0, 0, 1, 3})
	} else {
		g.canP = simfw.Pick(r, []int{0, 1, 3, 8})
	}
	if n == 0 {
		g.canP += 3
	}
	for i := range s.Files {
		g.cur = i
		f := &s.Files[i]
		switch {
		case f.Kind == "whole":
			f.Doc = g.whole(i == 0)
		case f.Kind == "free":
			f.Doc = g.free()
		default:
			f.Doc = g.element(strings.TrimPrefix(f.Kind, "single:"), 3)
		}
	}
	for i := range s.Files {
		if i > 0 && r.Chance(1, 3) {
			s.Files[i].YAML = true
		}
	}
	s.Decoys = append(s.Decoys, "decoy-"+s.Marker+".json", "specs/decoy-"+s.Marker+".json")
	// faults on non-root reads (and sometimes the root)
	if r.Chance(1, 3) && len(s.Files) > 1 {
		k := r.Range(1, 2)
		for i := 0; i < k; i++ {
			fi := r.Range(0, len(s.Files)-1)
			if fi == 0 && r.Chance(3, 4) {
				fi = r.Range(1, len(s.Files)-1)
			}
			kinds := []string{"enoent", "eio", "torn", "http5xx", "http_reset", "http_short"}
			if s.Reader == "func" && r.Chance(1, 3) {
				kinds = []string{"unsupported"} // the caller's reader declines the location
			}
			if strings.HasPrefix(AbsLoc(s, fi), "http") {
				kinds = []string{"http5xx", "http_reset", "http_short", "http_short", "torn", "eio"} // what connections do
			}
			// (cut points anywhere in the file: a long prefix may hold everything the loader looks for)
			s.Faults = append(s.Faults, simenv.ReadFault{Loc: fmt.Sprintf("file:%d", fi), Kind: simfw.Pick(r, kinds), Nth: r.Intn(3), Cut: simfw.Pick(r, []int{r.Range(1, 200), r.Range(200, 1500), r.Range(1500, 6000), -1})})
		}
	}
	// a response that breaks off is most telling when what did arrive parses and when somebody asks again
	for _, f := range s.Faults {
		var fi int
		if (f.Kind == "http_short" || f.Kind == "http_reset") && len(s.Files) > 1 {
			if _, err := fmt.Sscanf(f.Loc, "file:%d", &fi); err == nil && fi > 0 && fi < len(s.Files) {
				s.Files[fi].YAML = true
				if r.Bool() {
					s.Reuse = true
				}
			}
		}
	}
	if r.Chance(1, 8) && len(s.Files) > 1 {
		s.Changed = append(s.Changed, r.Range(0, len(s.Files)-1))
	}
	if !s.External && s.Reuse && r.Chance(1, 2) {
		// the second read of the root fails: whatever re-reads the root (a fallback lookup of a fragment in
		// the raw document) meets an error while the switch is off
		nth := 2
		if strings.HasPrefix(s.RootForm, "data_path") {
			nth = 0 // the content was handed over: any read of the root's location is a re-read
		}
		s.Faults = append(s.Faults, simenv.ReadFault{Loc: "file:0", Kind: "eio", Nth: nth})
	}
	s.ThenOther = !s.External && r.Chance(1, 3)
	s.ThenResolveOff = s.External && r.Chance(1, 6)
	if r.Chance(1, 5) {
		// internal references only; sometimes one that dangles here but names a component the earlier root has
		sch := map[string]any{"A": map[string]any{"type": "object", "properties": map[string]any{"b": map[string]any{"$ref": "#/components/schemas/B"}}}, "B": map[string]any{"type": "string"}}
		if r.Bool() {
			sch["C"] = map[string]any{"$ref": "#/components/schemas/Tschema"}
		}
		if r.Bool() {
			sch["D"] = map[string]any{"type": "array", "items": map[string]any{"$ref": "#/components/parameters/Tparameter/schema"}}
		}
		s.ThenMemory = map[string]any{"openapi": "3.0.3", "info": map[string]any{"title": "mem", "version": "1"}, "paths": map[string]any{}, "components": map[string]any{"schemas": sch}}
	}
	// path-item files that carry nothing but a summary / description
	for i := range s.Files {
		if s.Files[i].Kind == "single:pathItem" && r.Chance(1, 3) {
			s.Files[i].Doc = map[string]any{"summary": "only a summary", "description": "and a description"}
		}
	}
	// a deliberate chain, when the layout has the pieces: the root's operation uses a callback that
	// lives in another whole document A, whose path item is a whole-file reference to a path-item
	// file P (often in yet another directory, sometimes summary-only)
	if r.Chance(1, 3) {
		a, p := -1, -1
		for i := 1; i < len(s.Files); i++ {
			if s.Files[i].Kind == "whole" && a < 0 {
				a = i
			}
			if s.Files[i].Kind == "single:pathItem" && p < 0 {
				p = i
			}
		}
		if a > 0 && p > 0 {
			g.cur = a
			if adoc, ok := s.Files[a].Doc.(map[string]any); ok {
				if comps, ok := adoc["components"].(map[string]any); ok {
					if cbs, ok := comps["callbacks"].(map[string]any); ok {
						cbs["Tcallback"] = map[string]any{"{$request.body#/cb}": map[string]any{"$ref": g.ref(a, p, "")}}
					}
				}
			}
			g.cur = 0
			if rdoc, ok := s.Files[0].Doc.(map[string]any); ok {
				if paths, ok := rdoc["paths"].(map[string]any); ok {
					paths["/chain"] = map[string]any{"get": map[string]any{
						"responses": map[string]any{"200": map[string]any{"description": "d"}},
						"callbacks": map[string]any{"cb": map[string]any{"$ref": g.ref(0, a, "/components/callbacks/Tcallback")}},
					}}
				}
			}
		}
	}
	// a deliberate cycle of whole-file path items: the root mounts a path-item file whose operation
	// has a callback whose path item is that same file again
	if r.Chance(1, 4) {
		for p := 1; p < len(s.Files); p++ {
			if s.Files[p].Kind != "single:pathItem" {
				continue
			}
			pdoc, ok := s.Files[p].Doc.(map[string]any)
			if !ok {
				break
			}
			g.cur = p
			pdoc["post"] = map[string]any{
				"responses": map[string]any{"201": map[string]any{"description": "subscribed"}},
				"callbacks": map[string]any{"again": map[string]any{"{$request.body#/url}": map[string]any{"$ref": g.ref(p, p, "")}}},
			}
			g.cur = 0
			if rdoc, ok := s.Files[0].Doc.(map[string]any); ok {
				if paths, ok := rdoc["paths"].(map[string]any); ok {
					paths["/cycle"] = map[string]any{"$ref": g.ref(0, p, "")}
				}
			}
			break
		}
	}
	return s
}
