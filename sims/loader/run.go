package loader

import (
	"bytes"
	"encoding/json"
	"fmt"
	"net/http"
	"net/url"
	"path"
	"regexp"
	"sort"
	"strings"

	"github.com/getkin/kin-openapi/openapi3"
	"github.com/getkin/kin-openapi/zzsimrt"
	"github.com/oasdiff/yaml"

	"verif/simenv"
	"verif/simfw"
)

type Sim struct{}

func (Sim) Name() string         { return "loader" }
func (Sim) Properties() []string { return []string{"C11", "C02"} }
func (Sim) Gen(seed uint64, prop, tier string) any {
	return Gen(seed, prop, tier)
}
func (Sim) Components() (real, stub []string) {
	return []string{
			"openapi3.Loader (LoadFromData, LoadFromDataWithPath, LoadFromFile, LoadFromURI, LoadFromIoReader; all ten resolvers, fragment drill-down, fallback re-read)",
			"openapi3.DefaultReadFromURI = URIMapCache(ReadFromURIs(ReadFromHTTP(http.DefaultClient), ReadFromFile)) incl. the real net/http client",
			"JSON/YAML decoding, custom unmarshallers",
		}, []string{
			"file system (os.ReadFile redirected to the simulated storage)", "HTTP servers (http.DefaultTransport = simulated RoundTripper)",
			"custom ReadFromURIFunc (simulated storage)", "read faults: enoent, eio, torn, http5xx, http_reset, changed-on-second-read",
		}
}
func (Sim) Assumptions() []string {
	return []string{
		"the justified set J is the closure of the root location under a set-valued resolution that contains both the loader's documented behaviour and RFC 3986 for every spelling (relative: directory of the containing document; absolute path: both the local file and the same-host URL; scheme/host present: the reference itself); any \"$ref\" string anywhere in a document's true content justifies its targets",
		"reads are observed at the storage seam; with the default reader, reads answered by the library's process-wide URI cache are not observable (so observed reads are a subset of attempted ones; every location carries a per-run marker so the cache never links two runs)",
		"generator restrictions: no query strings in references; no dot-segments climbing above the storage root except in canaries; for roots loaded from memory no document refers back to the root's storage copy",
		"C02 is claimed for three clauses only: a read that fails and never succeeds for that location makes the load fail; a fragment reference in the root, at a position the loader resolves, whose existing target document lacks the fragment makes the load fail; loading terminates within a read budget and an instrumentation-step budget",
	}
}

func init() { simfw.Register(Sim{}) }

var debugErrs map[string]int

// DebugErrs switches on collection of load-error texts (development aid).
func DebugErrs() map[string]int {
	if debugErrs == nil {
		debugErrs = map[string]int{}
	}
	return debugErrs
}

func collectRefs(v any, out *[]string) {
	switch x := v.(type) {
	case map[string]any:
		keys := make([]string, 0, len(x))
		for k := range x {
			keys = append(keys, k)
		}
		sort.Strings(keys)
		for _, k := range keys {
			if k == "$ref" {
				if s, ok := x[k].(string); ok {
					*out = append(*out, s)
				}
				continue
			}
			collectRefs(x[k], out)
		}
	case []any:
		for _, e := range x {
			collectRefs(e, out)
		}
	}
}

// resolveSet is the liberal, set-valued resolution of reference r found in the
// document at location base (nil: a document without location).
func resolveSet(base *url.URL, r string) []string {
	u, err := url.Parse(r)
	if err != nil {
		return nil
	}
	u.Fragment = ""
	if u.Scheme != "" || u.Host != "" {
		out := []string{simenv.Canon(u)}
		if u.Scheme == "" && u.Host != "" && base != nil && base.Scheme != "" { // scheme-relative: RFC 3986 borrows the base scheme
			c := *u
			c.Scheme = base.Scheme
			out = append(out, simenv.Canon(&c))
		}
		return out
	}
	if u.Path == "" {
		return nil // same-document reference
	}
	if strings.HasPrefix(u.Path, "/") {
		out := []string{path.Clean(u.Path)}
		if base != nil && base.Host != "" {
			c := *base
			c.Path = u.Path
			c.Fragment = ""
			out = append(out, simenv.Canon(&c))
		}
		return out
	}
	if base == nil {
		return []string{path.Clean(u.Path)}
	}
	c := *base
	c.Fragment = ""
	c.RawQuery = ""
	c.Path = path.Join(path.Dir(base.Path), u.Path)
	out := []string{simenv.Canon(&c)}
	return out
}

var collectionPointer = regexp.MustCompile(`^/components/[A-Za-z]+$`)

type namedReader struct {
	*bytes.Reader
	name string
}

func (n namedReader) Name() string { return n.name }

func (Sim) Run(raw json.RawMessage, prop string, keep bool) (res simfw.Result) {
	var s Spec
	if err := json.Unmarshal(raw, &s); err != nil || len(s.Files) == 0 {
		res.Inconcl = "bad spec"
		return
	}
	log := &simfw.Log{Keep: keep}
	defer func() {
		res.Steps = log.Len()
		res.LogHash = log.Hash()
		if keep {
			res.Events = log.Events
		}
	}()
	zzsimrt.ResetMapOrder(0)
	for i := range s.Files {
		if s.Files[i].Path == "" {
			s.Files[i].Path = fmt.Sprintf("x%d.json", i)
		}
	}

	st := simenv.NewStorage(log)
	locOf := make([]string, len(s.Files))
	urlOf := make([]*url.URL, len(s.Files))
	content := make([][]byte, len(s.Files))
	for i, f := range s.Files {
		u, err := url.Parse(AbsLoc(&s, i))
		if err != nil {
			res.Inconcl = "bad location"
			return
		}
		urlOf[i] = u
		locOf[i] = simenv.Canon(u)
		b, _ := json.Marshal(f.Doc)
		if f.YAML && i > 0 {
			if y, err := yaml.JSONToYAML(b); err == nil {
				b = y
			}
		}
		content[i] = b
		st.Files[locOf[i]] = b
	}
	rootHasLocation := s.RootForm != "data" && s.RootForm != "reader"
	// decoys live next to the root
	rootDirURL := *urlOf[0]
	for _, d := range s.Decoys {
		c := rootDirURL
		c.Path = path.Join(path.Dir(rootDirURL.Path), d)
		st.Files[simenv.Canon(&c)] = []byte(`{"decoy":true,"type":"string"}`)
	}
	for _, f := range s.Faults {
		var idx int
		if _, err := fmt.Sscanf(f.Loc, "file:%d", &idx); err != nil || idx < 0 || idx >= len(s.Files) {
			continue
		}
		f.Loc = locOf[idx]
		if f.Nth < 0 {
			f.Nth = 0
		}
		st.Faults = append(st.Faults, f)
	}
	for _, idx := range s.Changed {
		if idx >= 0 && idx < len(s.Files) {
			st.Alt[locOf[idx]] = bytes.Replace(content[idx], []byte(`"version":"1"`), []byte(`"version":"2"`), 1)
		}
	}

	// ---- the justified set J ------------------------------------------------
	refsOf := map[string][]string{} // location -> references in its true content
	baseOf := map[string]*url.URL{}
	for i, f := range s.Files {
		var refs []string
		collectRefs(f.Doc, &refs)
		refsOf[locOf[i]] = refs
		baseOf[locOf[i]] = urlOf[i]
	}
	// (the references of the stored documents as they are: what a *target* is, for the C02 clauses)
	refsTrue := map[string][]string{}
	for l, refs := range refsOf {
		refsTrue[l] = append([]string{}, refs...)
	}
	// a partial delivery (torn read, response cut short) may still parse: the references of what was
	// delivered are references the loader legitimately follows
	for _, f := range st.Faults {
		if f.Kind != "torn" && f.Kind != "http_short" && f.Kind != "http_reset" {
			continue
		}
		full, ok := st.Files[f.Loc]
		if !ok {
			continue
		}
		var v any
		if yaml.Unmarshal(simenv.Partial(full, f), &v) == nil && v != nil {
			var refs []string
			collectRefs(v, &refs)
			refsOf[f.Loc] = append(refsOf[f.Loc], refs...)
			if len(refs) > 0 {
				res.Probe("partial-delivery-parses")
			}
		}
	}
	rootLoc := locOf[0]
	var rootBase *url.URL
	if rootHasLocation {
		rootBase = urlOf[0]
	}
	var rootRefs []string
	collectRefs(s.Files[0].Doc, &rootRefs)
	nrefs := 0
	closure := func(refsOf map[string][]string) map[string]bool {
		J := map[string]bool{}
		var queue []string
		addFrom := func(base *url.URL, refs []string) {
			for _, r := range refs {
				nrefs++
				for _, t := range resolveSet(base, r) {
					if !J[t] {
						J[t] = true
						queue = append(queue, t)
					}
				}
			}
		}
		if rootHasLocation {
			J[rootLoc] = true
		}
		addFrom(rootBase, rootRefs)
		for len(queue) > 0 {
			l := queue[0]
			queue = queue[1:]
			if refs, ok := refsOf[l]; ok {
				addFrom(baseOf[l], refs)
			}
		}
		return J
	}
	// JTrue: locations designated by references of the documents as stored (the targets of the C02 clauses);
	// J: the same plus what partially delivered documents refer to (every read inside it is justified, C11)
	JTrue := closure(refsTrue)
	nrefs = 0
	J := closure(refsOf)
	st.Budget = 64 + 16*(1+nrefs)*(1+len(s.Files))

	// ---- run the loader ------------------------------------------------------
	delivered := map[string]bool{}      // locations whose references are known to the loader so far
	readSoFar := map[string]bool{}      // locations the loader has asked for so far in this run
	okRead := map[string]bool{}         // locations read successfully so far in this run (a later load may legitimately reuse that content)
	failedBefore := map[string]string{} // locations whose read failed in an earlier load of this run
	mkLoader := func() *openapi3.Loader {
		l := openapi3.NewLoader()
		l.IsExternalRefsAllowed = s.External
		if s.Reader == "func" {
			l.ReadFromURIFunc = func(_ *openapi3.Loader, u *url.URL) ([]byte, error) {
				data, err := st.ReadURL(u)
				if err == simenv.ErrUnsupported {
					return nil, openapi3.ErrURINotSupported // the caller's reader declines this location
				}
				return data, err
			}
		}
		return l
	}
	{
		// (also when a custom reader is configured: a read that goes around it is then seen, not lost on the real disk)
		zzsimrt.ReadFileFunc = st.ReadFile
		prevT := http.DefaultTransport
		http.DefaultTransport = st
		defer func() { zzsimrt.ReadFileFunc = nil; http.DefaultTransport = prevT }()
	}
	loader := mkLoader()
	load := func() (doc *openapi3.T, err error, abort string) {
		zzsimrt.CountSteps, zzsimrt.Steps, zzsimrt.StepLimit = true, 0, uint64(2_000_000+200_000*nrefs)
		zzsimrt.ResetMapOrder(s.MapSeed)
		defer func() {
			zzsimrt.ResetMapOrder(0)
			zzsimrt.CountSteps = false
			if p := recover(); p != nil {
				switch x := p.(type) {
				case simenv.BudgetExceeded:
					abort = fmt.Sprintf("read budget exceeded: %d reads (budget %d for %d references in %d files)", x.Reads, st.Budget, nrefs, len(s.Files))
				case zzsimrt.StepBudgetExceeded:
					abort = fmt.Sprintf("step budget exceeded: more than %d instrumentation steps", x.Limit)
				default:
					abort = fmt.Sprintf("panic: %v", p)
				}
			}
		}()
		switch s.RootForm {
		case "data":
			doc, err = loader.LoadFromData(content[0])
		case "reader":
			// (readers with a name, as files and standard input have: the name is not a location)
			if s.Stdin {
				zzsimrt.StdinReader = namedReader{bytes.NewReader(content[0]), "/dev/stdin"}
				doc, err = loader.LoadFromStdin()
				zzsimrt.StdinReader = nil
				res.Probe("root-from-stdin")
			} else {
				doc, err = loader.LoadFromIoReader(namedReader{bytes.NewReader(content[0]), "/sim/" + s.Marker + "/upload.json"})
			}
		case "data_path_abs", "data_path_http":
			if s.ViaResolveRefsIn {
				// the caller unmarshals the document itself and asks the loader to resolve it at that location
				doc = &openapi3.T{}
				if err = doc.UnmarshalJSON(content[0]); err == nil {
					err = loader.ResolveRefsIn(doc, urlOf[0])
				}
				res.Probe("root-through-resolve-refs-in")
			} else {
				doc, err = loader.LoadFromDataWithPath(content[0], urlOf[0])
			}
		case "file_rel", "file_abs":
			doc, err = loader.LoadFromFile(urlOf[0].Path) // a file path, not a URL: no escaping
		default:
			doc, err = loader.LoadFromURI(urlOf[0])
		}
		return
	}
	sig := func(k string) string {
		sw := "off"
		if s.External {
			sw = "on"
		}
		return fmt.Sprintf("%s:switch-%s/%s/%s", k, sw, s.Reader, s.RootForm)
	}
	nloads := 1
	if s.Reuse {
		nloads = 2
	}
	for li := 0; li < nloads; li++ {
		first := len(st.Events)
		log.Add("sim", "load", fmt.Sprintf("#%d %s reader=%s external=%v", li+1, s.RootForm, s.Reader, s.External), "")
		_, lerr, abort := load()
		log.Add("sim", "loaded", "", fmt.Sprintf("err=%v abort=%s", lerr != nil, abort))
		if lerr != nil && debugErrs != nil {
			debugErrs[simfw.Trunc(lerr.Error(), 70)]++
		}
		if abort != "" {
			if strings.HasPrefix(abort, "panic") {
				// a panic of the loader is C20's subject, not a read-trace property; recorded, not judged here
				res.Probe("loader-panic")
			} else {
				res.Violate("C02", "termination", "C02/"+sig("non-termination"), abort)
			}
		}
		// ---- C11: every read is justified ----------------------------------
		if !rootHasLocation || strings.HasPrefix(s.RootForm, "data_path") {
			delivered["<root>"] = true // the root's content was handed to the loader, not read
		}
		failedRead := map[string]string{}
		for _, ev := range st.Events[first:] {
			readSoFar[ev.Loc] = true
			if ev.OK {
				okRead[ev.Loc] = true
			} else if _, seen := failedRead[ev.Loc]; !seen && (JTrue[ev.Loc] || !s.External) {
				// (only locations some reference designates are "targets" for the C02 clauses: a failed read of
				// a location nothing refers to - known finding K1's wrong-base read - is C11's business)
				failedRead[ev.Loc] = ev.Fault
			}
			isRoot := rootHasLocation && ev.Loc == rootLoc
			if s.Reader == "func" && ev.Via != "func" {
				// the caller configured its own reader: a read that goes around it (the default file / HTTP
				// readers) is a read the caller never sanctioned, and what it yields is not "the target was read"
				res.Violate("C02", "unreadable-target", "C02/"+sig("read-bypasses-configured-reader"), fmt.Sprintf("a ReadFromURIFunc is configured, yet the loader read %q via %s", ev.Loc, ev.Via))
			}
			switch {
			case !s.External:
				if !isRoot {
					res.Violate("C11", "switch-off", "C11/"+sig("read-beyond-root"), fmt.Sprintf("external references are disallowed, yet the loader read %q via %s (root is %q)", ev.Loc, ev.Via, rootLoc))
				}
			default:
				if !J[ev.Loc] {
					kind, why := classifyUnjustified(ev.Loc, readSoFar, refsOf, baseOf, rootBase, rootRefs, rootLoc, rootHasLocation, func(l string) []byte { return st.Files[l] })
					res.Violate("C11", "justified", "C11/"+sig(kind), fmt.Sprintf("the loader read %q via %s; no reference in any reachable document resolves to it%s", ev.Loc, ev.Via, why))
				} else if s.Reader == "func" && !isRoot {
					// temporal form: some document already delivered refers to it
					just := false
					check := func(base *url.URL, refs []string) {
						for _, r := range refs {
							for _, t := range resolveSet(base, r) {
								if t == ev.Loc {
									just = true
								}
							}
						}
					}
					if delivered["<root>"] || delivered[rootLoc] {
						check(rootBase, rootRefs)
					}
					for l := range delivered {
						if refs, ok := refsOf[l]; ok {
							check(baseOf[l], refs)
						}
					}
					if !just {
						res.Violate("C11", "justified-before", "C11/"+sig("read-before-reference"), fmt.Sprintf("the loader read %q before any document referring to it had been delivered", ev.Loc))
					}
				}
			}
			if ev.OK {
				delivered[ev.Loc] = true
			}
			if isRoot {
				res.Probe("read-root")
			} else {
				res.Probe("read-nonroot")
				for i, l := range locOf {
					if l == ev.Loc && ev.OK {
						res.Probe("reached-" + strings.SplitN(s.Files[i].Kind, ":", 2)[0])
						if strings.HasPrefix(s.Files[i].Kind, "single:") {
							res.Probe("reached-" + s.Files[i].Kind)
						}
					}
				}
			}
		}
		if (s.RootForm == "data" || s.RootForm == "reader") && !s.External && len(st.Events[first:]) > 0 {
			res.Violate("C11", "switch-off", "C11/"+sig("read-with-in-memory-root"), fmt.Sprintf("document loaded from memory with external references disallowed, yet %d read(s) were issued, first %q", len(st.Events[first:]), st.Events[first].Loc))
		}
		// ---- C02 clause: a target that cannot be read makes the load fail ----
		if abort == "" {
			var missing []string
			for l, f := range failedRead {
				if !okRead[l] {
					missing = append(missing, l+"("+f+")")
				}
			}
			sort.Strings(missing)
			if len(missing) > 0 {
				res.Probe("unreadable-target")
				if lerr == nil {
					res.Violate("C02", "unreadable-target", "C02/"+sig("load-succeeds-despite-unreadable-target"), fmt.Sprintf("reads of %v failed and never succeeded, yet loading returned no error", missing))
				}
			}
			// the same loader loading the same root again: what could not be read before and has not been read
			// since is as unreadable as it was (the earlier load asked for it, so this one needs it too, the
			// stored content being the same)
			var still []string
			for l, f := range failedBefore {
				if !okRead[l] && failedRead[l] == "" {
					still = append(still, l+"("+f+")")
				}
			}
			sort.Strings(still)
			// (only when this load was handed the documents as stored: after a torn or otherwise faulted
			// delivery in this load the loader works from other content and may need other targets)
			faultedNow := false
			for _, ev := range st.Events[first:] {
				if ev.Fault != "" {
					faultedNow = true
				}
			}
			if li > 0 && len(still) > 0 && st.Fired["changed"] == 0 && !faultedNow {
				res.Probe("reload-after-unreadable-target")
				if lerr == nil {
					res.Violate("C02", "unreadable-target", "C02/"+sig("reload-succeeds-despite-unreadable-target"), fmt.Sprintf("an earlier load by this loader failed because reads of %v failed; they have not succeeded since (this load did not even try), yet loading the same root again returned no error", still))
				}
			}
		}
		for l, f := range failedRead {
			if _, seen := failedBefore[l]; !seen {
				failedBefore[l] = f
			}
		}
		// ---- C02 clause: a fragment the target document lacks makes the load fail ----
		if abort == "" && li == 0 {
			for _, ref := range s.RootFragRefs {
				u, perr := url.Parse(ref)
				if perr != nil || u.Fragment == "" {
					continue
				}
				// the reference must still be in the root (the minimiser may have cut it out)
				present := false
				for _, r := range rootRefs {
					if r == ref {
						present = true
					}
				}
				if !present {
					continue
				}
				missing, known := false, false
				for _, t := range resolveSet(rootBase, ref) {
					// (the clause speaks of the document the loader was given: after a torn or otherwise faulted
					// delivery of the target in this load it worked from other content)
					faulted := false
					for _, ev := range st.Events[first:] {
						if ev.Loc == t && ev.Fault != "" {
							faulted = true
						}
					}
					if faulted {
						continue
					}
					if c, ok := st.Files[t]; ok {
						known = true
						var doc any
						if yaml.Unmarshal(c, &doc) == nil && (!pointerExists(doc, u.Fragment) || collectionPointer.MatchString(u.Fragment)) {
							// (a pointer that stops at /components/<kind> names the whole collection: no object of the kind referred to)
							missing = true
						}
					}
				}
				if known && missing {
					res.Probe("dangling-fragment-in-root")
					if lerr == nil {
						res.Violate("C02", "missing-fragment", "C02/"+sig("load-succeeds-despite-missing-fragment"), fmt.Sprintf("the root refers to %q at a position the loader resolves; the target document exists but has no such fragment, yet loading returned no error", ref))
					}
				}
			}
		}
		if lerr == nil {
			res.Probe("load-ok")
		} else {
			res.Probe("load-err")
		}
	}
	// ---- the switch turned off on a used Loader, references resolved through ResolveRefsIn ----
	if s.ThenResolveOff && s.External {
		first := len(st.Events)
		log.Add("sim", "load", "switch off, ResolveRefsIn on the same loader", "")
		func() {
			defer func() {
				if p := recover(); p != nil {
					res.Probe("loader-panic")
				}
			}()
			zzsimrt.ResetMapOrder(s.MapSeed)
			defer zzsimrt.ResetMapOrder(0)
			loader.IsExternalRefsAllowed = false
			doc := &openapi3.T{}
			if err := doc.UnmarshalJSON(content[0]); err != nil {
				return
			}
			var loc *url.URL
			if rootHasLocation {
				loc = urlOf[0]
			}
			err := loader.ResolveRefsIn(doc, loc)
			log.Add("sim", "resolved", "", fmt.Sprintf("err=%v", err != nil))
		}()
		res.Probe("then-resolve-refs-switch-off")
		for _, ev := range st.Events[first:] {
			if !(rootHasLocation && ev.Loc == rootLoc) {
				res.Violate("C11", "switch-off", "C11/"+sig("read-after-switch-turned-off"), fmt.Sprintf("the switch was turned off on a used Loader and references were resolved again (ResolveRefsIn), yet the loader read %q via %s", ev.Loc, ev.Via))
				break
			}
		}
		loader.IsExternalRefsAllowed = s.External
	}
	// ---- a further in-memory load on the same Loader: it may not read anything ----
	if s.ThenMemory != nil {
		first := len(st.Events)
		mem, _ := json.Marshal(s.ThenMemory)
		log.Add("sim", "load", "in-memory document on the same loader", "")
		func() {
			defer func() {
				if p := recover(); p != nil {
					res.Probe("loader-panic")
				}
			}()
			zzsimrt.ResetMapOrder(s.MapSeed)
			defer zzsimrt.ResetMapOrder(0)
			_, err := loader.LoadFromData(mem)
			log.Add("sim", "loaded", "", fmt.Sprintf("err=%v", err != nil))
		}()
		res.Probe("then-memory-load")
		for _, ev := range st.Events[first:] {
			res.Violate("C11", "in-memory", "C11/"+sig("read-during-in-memory-load"), fmt.Sprintf("a document without any external reference was loaded from memory on a reused Loader, yet the loader read %q via %s", ev.Loc, ev.Via))
			break
		}
	}
	// ---- another document of the layout loaded as a root of its own on the same Loader, switch off:
	// nothing but that document's own location may be read, whatever the earlier loads went through
	if s.ThenOther && !s.External && len(s.Files) > 1 {
		k := 1
		for i := 1; i < len(s.Files); i++ {
			if s.Files[i].Kind == "whole" {
				k = i
				break
			}
		}
		first := len(st.Events)
		log.Add("sim", "load", "another document on the same loader: "+locOf[k], "")
		func() {
			defer func() {
				if p := recover(); p != nil {
					res.Probe("loader-panic")
				}
			}()
			zzsimrt.ResetMapOrder(s.MapSeed)
			defer zzsimrt.ResetMapOrder(0)
			_, err := loader.LoadFromDataWithPath(content[k], urlOf[k])
			log.Add("sim", "loaded", "", fmt.Sprintf("err=%v", err != nil))
		}()
		res.Probe("then-other-document-switch-off")
		for _, ev := range st.Events[first:] {
			if ev.Loc != locOf[k] {
				res.Violate("C11", "switch-off", "C11/"+sig("read-beyond-root/later-document"), fmt.Sprintf("external references are disallowed, yet while loading %q (handed over with its location) on a Loader used before, the loader read %q via %s", locOf[k], ev.Loc, ev.Via))
				break
			}
		}
	}
	for k, v := range st.Fired {
		for i := 0; i < v; i++ {
			res.Fault(k)
		}
	}
	var ks []string
	for _, f := range s.Files {
		ks = append(ks, f.Kind)
	}
	res.Class = simfw.ClassKey(s.RootForm, s.Reader, s.External, s.Reuse, strings.Join(ks, ","), len(st.Events), len(s.Faults), len(s.Changed))
	res.Nontrivial = nrefs > 0
	return
}

// classifyUnjustified gives an unjustified read a structural signature.
//
// "wrong-base-after-right-base": the location is what reference r, found in
// document D, resolves to against the location of another document D' that
// holds a fragment reference into D (or into a document from which D is
// reachable through references), and the loader had already asked for r's
// proper target (r resolved against D's own location) earlier in the run. This
// is the shape of the loader's second pass over an object it obtained through
// a fragment reference (known finding K1). Anything else is a plain
// "unjustified-read".
func classifyUnjustified(loc string, readSoFar map[string]bool, refsOf map[string][]string, baseOf map[string]*url.URL,
	rootBase *url.URL, rootRefs []string, rootLoc string, rootHasLocation bool, contentOf func(string) []byte) (string, string) {
	type docT struct {
		loc  string
		base *url.URL
		refs []string
	}
	var docs []docT
	if !rootHasLocation {
		docs = append(docs, docT{"<root>", nil, rootRefs})
	}
	locs := make([]string, 0, len(refsOf))
	for l := range refsOf {
		locs = append(locs, l)
	}
	sort.Strings(locs)
	for _, l := range locs {
		// (when the root was loaded from memory, its copy in the storage is a document of
		// its own, reachable through references to its location)
		docs = append(docs, docT{l, baseOf[l], refsOf[l]})
	}
	byLoc := map[string]docT{}
	for _, d := range docs {
		byLoc[d.loc] = d
	}
	reachMemo := map[string]map[string]bool{}
	reach := func(from string) map[string]bool {
		if m, ok := reachMemo[from]; ok {
			return m
		}
		seen := map[string]bool{from: true}
		queue := []string{from}
		for len(queue) > 0 {
			l := queue[0]
			queue = queue[1:]
			d, ok := byLoc[l]
			if !ok {
				continue
			}
			for _, r := range d.refs {
				for _, t := range resolveSet(d.base, r) {
					if !seen[t] {
						seen[t] = true
						queue = append(queue, t)
					}
				}
			}
		}
		reachMemo[from] = seen
		return seen
	}
	for _, d := range docs { // D: where the reference was found
		for _, r := range d.refs {
			for _, dp := range docs { // D': whose location was used instead
				if dp.loc == d.loc {
					continue
				}
				hit := false
				for _, t := range resolveSet(dp.base, r) {
					if t == loc {
						hit = true
					}
				}
				if !hit {
					continue
				}
				// D' holds a fragment reference into D, or into a document from which D
				// is reachable through references (the object D' obtained then embeds
				// content of D)
				refersInto := false
				for _, r2 := range dp.refs {
					if !strings.Contains(r2, "#") || strings.HasPrefix(r2, "#") {
						continue
					}
					for _, t := range resolveSet(dp.base, r2) {
						if reach(t)[d.loc] {
							refersInto = true
						}
					}
				}
				if !refersInto {
					continue
				}
				for _, t := range resolveSet(d.base, r) {
					if readSoFar[t] {
						// which shape of K1: a reference cycle back to D or D', an empty path item, or something else
						class := "other"
						rootCopy := !rootHasLocation && t == rootLoc && (dp.loc == "<root>" || d.loc == "<root>")
						if reach(t)[d.loc] || reach(t)[dp.loc] || rootCopy {
							// (rootCopy: the target is the storage copy of the in-memory root itself)
							class = "cycle"
						} else if !strings.Contains(r, "#") && emptyPathItem(contentOf(t)) {
							class = "empty-pathitem"
						}
						return "wrong-base-after-right-base/" + class, fmt.Sprintf(" (it is reference %q of %s resolved against the location of %s, which refers into that document by fragment; the proper target %q had been asked for before)", r, d.loc, dp.loc, t)
					}
				}
			}
		}
	}
	return "unjustified-read", ""
}

// emptyPathItem reports whether content, read as an OpenAPI Path Item Object,
// has none of that object's fields (or is missing / not an object).
func emptyPathItem(content []byte) bool {
	var m map[string]any
	if len(content) == 0 || json.Unmarshal(content, &m) != nil {
		return true
	}
	for _, k := range []string{"summary", "description", "get", "put", "post", "delete", "options", "head", "patch", "trace", "servers", "parameters", "$ref"} {
		if _, ok := m[k]; ok {
			return false
		}
	}
	return true
}

// pointerExists evaluates a JSON pointer (RFC 6901) over decoded JSON.
func pointerExists(doc any, pointer string) bool {
	if pointer == "" || pointer == "/" {
		return true
	}
	if !strings.HasPrefix(pointer, "/") {
		return false
	}
	cur := doc
	for _, tok := range strings.Split(pointer[1:], "/") {
		tok = strings.ReplaceAll(strings.ReplaceAll(tok, "~1", "/"), "~0", "~")
		switch v := cur.(type) {
		case map[string]any:
			nxt, ok := v[tok]
			if !ok {
				return false
			}
			cur = nxt
		case []any:
			idx := -1
			fmt.Sscanf(tok, "%d", &idx)
			if idx < 0 || idx >= len(v) {
				return false
			}
			cur = v[idx]
		default:
			return false
		}
	}
	return true
}
