package stream

import (
	"bytes"
	"encoding/json"
	"fmt"
	"mime/multipart"
	"net/url"
	"strings"

	"verif/simenv"
	"verif/simfw"
)

// ValOpts are the options of one validation.
type ValOpts struct {
	MultiError      bool `json:"multi_error,omitempty"`
	SkipDefaults    bool `json:"skip_defaults,omitempty"`
	ExcludeBody     bool `json:"exclude_body,omitempty"`
	ExcludeQuery    bool `json:"exclude_query,omitempty"`
	ExcludeRespBody bool `json:"exclude_resp_body,omitempty"`
	IncludeStatus   bool `json:"include_status,omitempty"`
}

// AuthMode is how the authentication callback behaves for one scheme.
//
//	ok | fail            decide without touching the body
//	read_ok | read_fail  read the whole body, then decide
//	part_ok | part_fail  read a few bytes, then decide
//	sig                  read the whole body; accept iff it is the body the client sent
//	close_ok             read everything, close the body, accept
type Spec struct {
	Leg           string            `json:"leg"` // request | response
	Doc           SDoc              `json:"doc"`
	Marker        string            `json:"marker"`
	Vals          []ValOpts         `json:"vals"`
	Auth          map[string]string `json:"auth,omitempty"`
	Req           ReqSpec           `json:"req"`
	Resp          RespSpec          `json:"resp,omitempty"`
	ReuseInput    bool              `json:"reuse_input,omitempty"`    // response leg: further responses go through the same ResponseValidationInput value
	MoreReqs      []ReqSpec         `json:"more_reqs,omitempty"`      // request leg: further requests validated before any forwarded body is read
	More          []RespSpec        `json:"more,omitempty"`           // response leg: further responses validated before any body is read back
	MapSeed       uint64            `json:"map_seed,omitempty"`       // 0 = sorted map iteration inside the library; else a seeded permutation per site and visit (the neutral run always uses sorted order)
	ReadReverse   bool              `json:"read_reverse,omitempty"`   // read the bodies back in reverse order
	ReadBuf       int               `json:"read_buf,omitempty"`       // buffer size of the next handler
	Again         bool              `json:"again,omitempty"`          // a fault-free request follows on the same document
	Prelude       bool              `json:"prelude,omitempty"`        // before anything else, the same request is validated against a sibling document (same names, other defaults) in this process
	SharedOptions bool              `json:"shared_options,omitempty"` // every validation of the run is given the same Options value per option set (as a middleware does)
	RejectedFirst bool              `json:"rejected_first,omitempty"` // request leg: a request whose credentials nobody accepts is validated first, through the same Options
	NoAuthFunc    bool              `json:"no_auth_func,omitempty"`   // the caller configured no AuthenticationFunc at all
}

type ReqSpec struct {
	Query     string           `json:"query,omitempty"`
	Headers   [][2]string      `json:"headers,omitempty"`
	Cookies   [][2]string      `json:"cookies,omitempty"`
	CT        string           `json:"ct,omitempty"`
	Body      string           `json:"body,omitempty"`
	BodyMode  string           `json:"body_mode,omitempty"` // stream | nil | nobody | empty
	Chunk     simenv.ChunkPlan `json:"chunk,omitempty"`
	GetBody   string           `json:"get_body,omitempty"` // "" | ok | err
	CLUnknown bool             `json:"cl_unknown,omitempty"`
	CLSmall   bool             `json:"cl_small,omitempty"` // ContentLength announces half of what the stream holds (a body replaced by a longer one upstream, the field left alone)
	CLZero    bool             `json:"cl_zero,omitempty"`  // ContentLength 0 with a non-nil body: "unknown" for client-style requests (net/http)
}

type RespSpec struct {
	Method  string           `json:"method,omitempty"` // POST | HEAD
	Status  int              `json:"status,omitempty"`
	Headers [][2]string      `json:"headers,omitempty"`
	Body    string           `json:"body,omitempty"`
	Chunk   simenv.ChunkPlan `json:"chunk,omitempty"`
	NilBody bool             `json:"nil_body,omitempty"`
	Form    string           `json:"form,omitempty"` // "" a stream | seek: a seekable body the caller has already read a prefix of | nobody: http.NoBody for an empty body
	Skip    int              `json:"skip,omitempty"` // seek: length of the prefix already consumed
}

func chunkPlan(r *simfw.RNG, n int, fault bool) simenv.ChunkPlan {
	var p simenv.ChunkPlan
	switch r.Intn(7) {
	case 0:
	case 1:
		p.Sizes = []int{1}
	case 2:
		p.Sizes = []int{r.Range(2, 9)}
	case 3:
		k := r.Range(2, 5)
		for i := 0; i < k; i++ {
			p.Sizes = append(p.Sizes, r.Range(0, 60))
		}
	case 4:
		p.Sizes = []int{511, 1, 513}
	case 5:
		p.Sizes = []int{0, r.Range(1, 9), 0, 0, 3}
	case 6:
		p.Sizes = []int{4096}
	}
	p.EOFWithData = r.Bool()
	p.CloseErr = r.Chance(1, 10)
	if fault && n > 1 {
		p.FaultAt = r.Range(1, n-1)
		p.FaultKind = simfw.Pick(r, []string{"eio", "reset", "unexpected_eof"})
	}
	return p
}

func fp(f float64) *float64 { return &f }

// bodySchema builds the JSON body schema from features, and a value for it.
func bodySchema(r *simfw.RNG, rq string, withDefaults bool) (*Node, map[string]any, []string) {
	n := &Node{Type: "object", Required: []string{"name"}, Props: map[string]*Node{"name": {Type: "string"}}}
	v := map[string]any{"name": rq}
	var feats []string
	feat := func(name string, num, den int) bool {
		if withDefaults && r.Chance(num, den) {
			feats = append(feats, name)
			return true
		}
		return false
	}
	if feat("top", 2, 3) {
		n.Props["mode"] = &Node{Type: "string", Default: "std"}
		n.Props["count"] = &Node{Type: "integer", Default: float64(5), Min: fp(0)}
		n.Props["flag"] = &Node{Type: "boolean", Default: false}
		if r.Bool() {
			v["mode"] = "fast"
		}
		if r.Chance(1, 3) {
			v["count"] = float64(r.Range(0, 99))
		}
		if r.Chance(1, 3) {
			v["flag"] = true
		}
	}
	if feat("nested", 1, 2) {
		n.Props["opts"] = &Node{Type: "object", Props: map[string]*Node{"depth": {Type: "integer", Default: float64(3)}, "label": {Type: "string"}}}
		switch r.Intn(4) {
		case 0: // absent: nothing to fill in
		case 1:
			v["opts"] = map[string]any{}
		case 2:
			v["opts"] = map[string]any{"label": "l" + rq}
		case 3:
			v["opts"] = map[string]any{"depth": float64(9), "label": "x"}
		}
	}
	if feat("items", 1, 3) {
		n.Props["rows"] = &Node{Type: "array", Items: &Node{Type: "object", Props: map[string]*Node{"q": {Type: "integer", Default: float64(1)}, "id": {Type: "string"}}}}
		var rows []any
		for i, k := 0, r.Range(0, 3); i < k; i++ {
			row := map[string]any{"id": fmt.Sprintf("r%d", i)}
			if r.Bool() {
				row["q"] = float64(r.Range(2, 9))
			}
			rows = append(rows, row)
		}
		if rows != nil || r.Bool() {
			if rows == nil {
				rows = []any{}
			}
			v["rows"] = rows
		}
	}
	branches := func() []*Node {
		noExtra := r.Chance(1, 4)
		return []*Node{
			{Type: "object", Kind: "circle", Required: []string{"kind", "r"}, NoExtra: noExtra, Props: map[string]*Node{
				"kind": {Type: "string", Enum: []any{"circle"}}, "r": {Type: "number"}, "unit": {Type: "string", Default: "cm"},
				"meta": {Type: "object", Props: map[string]*Node{"lives": {Type: "integer", Default: float64(9)}, "note": {Type: "string"}}},
				"pts":  {Type: "array", Items: &Node{Type: "object", Props: map[string]*Node{"x": {Type: "integer", Default: float64(1)}, "b": {Type: "string"}}}}}},
			{Type: "object", Kind: "rect", Required: []string{"kind", "w"}, NoExtra: noExtra, Props: map[string]*Node{
				"kind": {Type: "string", Enum: []any{"rect"}}, "w": {Type: "number"}, "h": {Type: "number", Default: float64(1)}, "fill": {Type: "string", Default: "none"},
				"meta": {Type: "object", Props: map[string]*Node{"sides": {Type: "integer", Default: float64(4)}, "note": {Type: "string"}}},
				"pts":  {Type: "array", Items: &Node{Type: "object", Props: map[string]*Node{"y": {Type: "integer", Default: float64(2)}, "b": {Type: "string"}}}}}},
		}
	}
	branchValue := func() map[string]any {
		var m map[string]any
		if r.Bool() {
			m = map[string]any{"kind": "circle", "r": float64(r.Range(1, 9))}
			if r.Chance(1, 3) {
				m["unit"] = "mm"
			}
		} else {
			m = map[string]any{"kind": "rect", "w": float64(r.Range(1, 9))}
			if r.Chance(1, 3) {
				m["h"] = float64(2)
			}
		}
		// nested values present without their defaulted properties: a default of the
		// other branch must not leak into them
		switch r.Intn(3) {
		case 0:
			m["meta"] = map[string]any{}
		case 1:
			m["meta"] = map[string]any{"note": "n"}
		}
		if r.Chance(1, 3) {
			m["pts"] = []any{map[string]any{"b": "q"}, map[string]any{}}
		}
		return m
	}
	if feat("oneof", 1, 3) {
		n.Props["shape"] = &Node{OneOf: branches()}
		if r.Chance(3, 4) {
			v["shape"] = branchValue()
		}
	}
	if feat("anyof", 1, 4) {
		n.Props["extra"] = &Node{AnyOf: branches()}
		if r.Chance(3, 4) {
			v["extra"] = branchValue()
		}
	}
	if feat("arrxof", 1, 4) {
		// oneOf / anyOf over arrays whose element schemas carry defaults
		arrBranch := func(kind, prop string, dflt any) *Node {
			return &Node{Type: "array", Kind: kind, Items: &Node{Type: "object", Required: []string{"kind"}, Props: map[string]*Node{
				"kind": {Type: "string", Enum: []any{kind}}, prop: {Default: dflt}, "tag": {Type: "string"}}}}
		}
		bs := []*Node{arrBranch("cat", "lives", float64(9)), arrBranch("dog", "loud", true)}
		if r.Bool() {
			n.Props["list"] = &Node{OneOf: bs}
		} else {
			n.Props["list"] = &Node{AnyOf: bs}
		}
		if r.Chance(3, 4) {
			kind := simfw.Pick(r, []string{"cat", "dog"})
			var arr []any
			for i, k := 0, r.Range(1, 3); i < k; i++ {
				el := map[string]any{"kind": kind}
				if r.Bool() {
					el["tag"] = fmt.Sprintf("t%d", i)
				}
				arr = append(arr, el)
			}
			v["list"] = arr
		}
	}
	if feat("allof", 1, 4) {
		n.AllOf = []*Node{
			{Type: "object", Props: map[string]*Node{"a1": {Type: "string", Default: "x"}}},
			{Type: "object", Props: map[string]*Node{"a2": {Type: "integer", Default: float64(2)}}},
		}
		if r.Chance(1, 3) {
			v["a1"] = "given"
		}
	}
	if feat("objdefault", 1, 5) {
		n.Props["conf"] = &Node{Type: "object", Default: map[string]any{"level": "low"},
			Props: map[string]*Node{"level": {Type: "string"}, "retries": {Type: "integer", Default: float64(2)}}}
		if r.Chance(1, 3) {
			v["conf"] = map[string]any{"level": "high"}
		}
	}
	if feat("arrdefault", 1, 6) {
		n.Props["labels"] = &Node{Type: "array", Items: &Node{Type: "string"}, Default: []any{"p", "q"}}
	}
	return n, v, feats
}

var paramPool = []ParamDecl{
	{Name: "limit", In: "query", Type: "integer", Default: float64(10)},
	{Name: "sort", In: "query", Type: "string", Default: "asc", Enum: []any{"asc", "desc"}},
	{Name: "verbose", In: "query", Type: "boolean", Default: false},
	{Name: "tags", In: "query", Type: "array", Default: []any{"x", "y"}, Explode: "true", Enum: []any{"x", "y", "z"}},
	{Name: "tags", In: "query", Type: "array", Default: []any{"x", "y"}, Explode: "false", Enum: []any{"x", "y", "z"}},
	{Name: "tags", In: "query", Type: "array", Default: []any{"x", "y"}, Explode: "", Enum: []any{"x", "y", "z"}},
	{Name: "X-Mode", In: "header", Type: "string", Default: "std"},
	{Name: "X-Level", In: "header", Type: "integer", Default: float64(3)},
	{Name: "ratio", In: "query", Type: "number", Default: float64(1234567.5)},
	{Name: "ids", In: "query", Type: "array", Default: []any{float64(5), float64(3000000)}, Explode: "true"},
	{Name: "filter", In: "query", Type: "object", Default: map[string]any{"state": "open"}, Content: true},
	{Name: "sess", In: "cookie", Type: "string", Default: "anon"},
	{Name: "page", In: "cookie", Type: "integer", Default: float64(1)},
	{Name: "q", In: "query", Type: "string"},                      // no default
	{Name: "X-Req", In: "header", Type: "string", Required: true}, // required, no default
}

func multipartBody(fields [][2]string) (string, string) {
	var buf bytes.Buffer
	w := multipart.NewWriter(&buf)
	w.SetBoundary("simboundary7d1")
	for _, f := range fields {
		w.WriteField(f[0], f[1])
	}
	w.Close()
	return buf.String(), w.FormDataContentType()
}

// Gen expands a run seed into a run spec.
func Gen(seed uint64, prop, tier string) *Spec {
	r := simfw.NewRNG(seed)
	s := &Spec{Marker: fmt.Sprintf("%012x", seed&0xffffffffffff)}
	s.Leg = "request"
	if prop == "C08" || (prop == "" && r.Chance(1, 4)) {
		s.Leg = "response"
	}
	s.ReadBuf = simfw.Pick(r, []int{1, 7, 64, 512, 4096})
	if r.Chance(1, 3) {
		s.MapSeed = r.Uint64() | 1
	}
	s.Prelude = r.Chance(1, 3)
	s.SharedOptions = r.Chance(2, 3)
	s.RejectedFirst = r.Chance(1, 4)
	s.NoAuthFunc = r.Chance(1, 12)
	if s.Leg == "response" {
		genResponse(r, s)
		return s
	}
	rq := "RQ" + s.Marker
	d := &s.Doc
	// security
	shapes := []string{"", "", "single", "or", "and", "or3", "and_or", "empty_req", "or_empty", "empty_list", "undecl_or", "undecl_and", "undecl_only", "scopes_or", "scopes_or_rev", "scopes_mix", "nil_slice_ptr"}
	d.Method = simfw.Pick(r, []string{"", "", "", "put", "patch", "delete", "options"})
	d.SecOp = simfw.Pick(r, shapes)
	d.SecDoc = simfw.Pick(r, []string{"", "", "single", "or", "and", "empty_list", "undecl_or"})
	if prop == "C07" && d.SecOp == "" && d.SecDoc == "" {
		d.SecOp = simfw.Pick(r, shapes[2:])
	}
	modes := []string{"ok", "ok", "fail", "read_ok", "read_fail", "part_ok", "part_fail", "sig", "sig", "close_ok", "scoped", "scoped"}
	s.Auth = map[string]string{"a": simfw.Pick(r, modes), "b": simfw.Pick(r, modes), "x-c": simfw.Pick(r, modes)}
	// parameters
	seen := map[string]bool{}
	for _, i := range r.Perm(len(paramPool)) {
		p := paramPool[i]
		if seen[p.In+p.Name] || !r.Chance(2, 5) {
			continue
		}
		seen[p.In+p.Name] = true
		if f, ok := p.Default.(float64); ok && p.Type == "integer" && f < 1000 && r.Chance(1, 3) {
			// defaults need not be small
			p.Default = simfw.Pick(r, []float64{1000000, 20000001, 1234567890123})
		}
		d.Params = append(d.Params, p)
	}
	// path-item level parameters: some overridden by an operation parameter of the same
	// location and name (then only the operation's default counts), some only inherited
	if r.Chance(1, 3) {
		for _, p := range d.Params {
			if p.Default != nil && p.Type != "array" && !p.Content && r.Bool() {
				pp := ParamDecl{Name: p.Name, In: p.In, Type: p.Type}
				switch p.Type {
				case "integer", "number":
					pp.Default = float64(77)
				case "boolean":
					pp.Default = true
				default:
					pp.Default = "desc"
					if len(p.Enum) == 0 {
						pp.Default = "pathlevel"
					}
					pp.Enum = p.Enum
				}
				d.PathParams = append(d.PathParams, pp)
			}
		}
		if r.Bool() {
			d.PathParams = append(d.PathParams, ParamDecl{Name: "X-Org", In: "header", Type: "string", Default: "org"})
		}
		if r.Bool() {
			d.PathParams = append(d.PathParams, ParamDecl{Name: "depth", In: "query", Type: "integer", Default: float64(2)})
		}
	}
	// body
	d.BodyKind = simfw.Pick(r, []string{"json", "json", "json", "json", "form", "multipart", "text", ""})
	d.BodyReq = r.Bool()
	var bodyVal map[string]any
	switch d.BodyKind {
	case "json":
		d.Body, bodyVal, _ = bodySchema(r, rq, true)
	case "form", "multipart":
		d.Body = &Node{Type: "object", Required: []string{"name"}, Props: map[string]*Node{"name": {Type: "string"}, "count": {Type: "integer"}}}
		if r.Chance(1, 3) {
			// a defaulted property in a non-JSON body (the request below never carries it)
			d.Body.Props["mode"] = &Node{Type: "string", Default: "std"}
		}
	}
	// validations
	nv := 1
	if r.Chance(1, 3) {
		nv = 2
	}
	for i := 0; i < nv; i++ {
		s.Vals = append(s.Vals, ValOpts{MultiError: r.Chance(1, 3), SkipDefaults: r.Chance(1, 4), ExcludeBody: r.Chance(1, 8), ExcludeQuery: r.Chance(1, 8)})
	}
	if nv == 2 && r.Bool() {
		s.Vals[1] = s.Vals[0]
	}

	// ---- the request ----------------------------------------------------
	q := &s.Req
	qv := url.Values{}
	for _, p := range d.Params {
		pick := r.Intn(10)
		switch {
		case pick < 5: // absent
			if p.Required {
				q.Headers = append(q.Headers, [2]string{p.Name, "r" + rq})
			}
		case pick < 9: // present and valid
			val := "v"
			switch p.Type {
			case "integer":
				val = fmt.Sprint(r.Range(1, 50))
			case "boolean":
				val = "true"
			case "string":
				val = "s" + rq
				if len(p.Enum) > 0 {
					val = fmt.Sprint(simfw.Pick(r, p.Enum))
				}
			case "array":
				val = "z"
			case "object":
				val = `{"state":"closed"}`
			}
			switch p.In {
			case "query":
				qv.Add(p.Name, val)
				if p.Type == "array" && p.Explode != "false" && r.Bool() {
					qv.Add(p.Name, "x")
				}
			case "header":
				q.Headers = append(q.Headers, [2]string{p.Name, val})
			case "cookie":
				q.Cookies = append(q.Cookies, [2]string{p.Name, val})
			}
		default: // present and invalid
			bad := "not-valid-" + rq
			switch p.In {
			case "query":
				qv.Add(p.Name, bad)
			case "header":
				if p.Type == "string" && len(p.Enum) == 0 {
					q.Headers = append(q.Headers, [2]string{p.Name, bad}) // any string is fine: stays valid
				} else {
					q.Headers = append(q.Headers, [2]string{p.Name, bad})
				}
			case "cookie":
				q.Cookies = append(q.Cookies, [2]string{p.Name, bad})
			}
		}
	}
	// unrelated pairs that must come through untouched
	if r.Bool() {
		qv.Add("untouched", "u "+rq)
	}
	if r.Chance(1, 3) {
		q.Cookies = append(q.Cookies, [2]string{"other", "o" + rq})
	}
	q.Headers = append(q.Headers, [2]string{"X-Other", "h" + rq})
	q.Query = qv.Encode()
	if r.Chance(1, 4) && q.Query != "" {
		// a spelling Encode would not produce: unsorted, '+' for space
		q.Query = "zz=last+one&" + q.Query
	}

	q.BodyMode = "stream"
	switch d.BodyKind {
	case "json":
		switch r.Intn(10) {
		case 0:
			q.Body = `{"name": "` + rq // malformed
		case 1:
			delete(bodyVal, "name") // schema violation
			b, _ := json.Marshal(bodyVal)
			q.Body = string(b)
		case 2:
			bodyVal["name"] = float64(7)
			b, _ := json.Marshal(bodyVal)
			q.Body = string(b)
		default:
			b, _ := json.Marshal(bodyVal)
			q.Body = string(b)
			if r.Chance(1, 3) {
				bb, _ := json.MarshalIndent(bodyVal, "", "   ")
				q.Body = string(bb)
			}
		}
		q.CT = simfw.Pick(r, []string{"application/json", "application/json", "application/json; charset=utf-8", "text/csv"})
	case "form":
		f := url.Values{"name": {rq}}
		if r.Bool() {
			f.Set("count", fmt.Sprint(r.Range(1, 9)))
		}
		if r.Chance(1, 6) {
			f.Del("name")
		}
		q.Body = f.Encode()
		q.CT = "application/x-www-form-urlencoded"
	case "multipart":
		fields := [][2]string{{"name", rq}}
		if r.Bool() {
			fields = append(fields, [2]string{"count", fmt.Sprint(r.Range(1, 9))})
		}
		if r.Chance(1, 6) {
			fields = fields[1:]
		}
		q.Body, q.CT = multipartBody(fields)
	case "text":
		q.Body = "plain " + rq + strings.Repeat(" pad", r.Range(0, 300))
		q.CT = "text/plain"
	default:
		if r.Bool() {
			q.Body = "unchecked " + rq
			q.CT = "application/octet-stream"
		} else {
			q.BodyMode = simfw.Pick(r, []string{"nil", "nobody"})
		}
	}
	if d.BodyKind != "" {
		switch r.Intn(12) {
		case 0:
			q.BodyMode = "nil"
			q.Body = ""
		case 1:
			q.BodyMode = "nobody"
			q.Body = ""
		case 2:
			q.BodyMode = "empty"
			q.Body = ""
		}
	}
	// now and then a large body (limits, buffers and partial reads only show with size)
	if q.BodyMode == "stream" && (d.BodyKind == "text" || d.BodyKind == "") && r.Chance(1, 40) {
		q.Body = q.Body + strings.Repeat(" big"+rq[:4], simfw.Pick(r, []int{9000, 9000, 150000}))
		s.ReadBuf = 4096
	}
	if q.BodyMode == "stream" {
		fault := prop != "" && r.Chance(1, 6) && len(q.Body) > 1
		q.Chunk = chunkPlan(r, len(q.Body), fault)
		if len(q.Body) > 50000 {
			q.Chunk.Sizes = simfw.Pick(r, [][]int{nil, {4096}, {65536, 1, 70000}, {32768}})
		}
		if fault {
			s.Again = true
		}
		q.GetBody = simfw.Pick(r, []string{"", "", "ok", "err"})
		q.CLUnknown = r.Chance(1, 4)
		q.CLZero = !q.CLUnknown && r.Chance(1, 6)
		q.CLSmall = !q.CLUnknown && !q.CLZero && r.Chance(1, 10)
	}
	// sometimes further requests are in flight: same shape, their own marker and delivery
	if q.BodyMode == "stream" && q.Chunk.FaultAt == 0 && r.Chance(1, 4) {
		for i, k := 0, r.Range(1, 2); i < k; i++ {
			m := *q
			m.Body = strings.ReplaceAll(q.Body, rq, fmt.Sprintf("%sn%d", rq, i+2))
			m.Query = strings.ReplaceAll(q.Query, rq, fmt.Sprintf("%sn%d", rq, i+2))
			m.Chunk = chunkPlan(r, len(m.Body), false)
			m.GetBody = simfw.Pick(r, []string{"", "", "ok", "err"})
			s.MoreReqs = append(s.MoreReqs, m)
		}
		s.ReadReverse = r.Bool()
	}
	return s
}

func genResponse(r *simfw.RNG, s *Spec) {
	d := &s.Doc
	mk := "RS" + s.Marker
	p := &s.Resp
	p.Method = "POST"
	if r.Chance(1, 12) {
		p.Method = "HEAD"
	}
	p.Status = simfw.Pick(r, []int{200, 200, 200, 201, 204, 301, 304, 307, 308, 400, 404, 404, 500, 503})
	bodyCT := "application/json"
	switch r.Intn(9) {
	case 0, 1, 2, 3:
		p.Body = fmt.Sprintf(`{"id":%d,"tag":"%s"}`, r.Range(1, 99), mk)
		if r.Chance(1, 3) {
			p.Body = fmt.Sprintf("{\n  \"id\": %d,\n  \"tag\": \"%s %s\"\n}", r.Range(1, 99), mk, strings.Repeat("pad ", r.Range(0, 300)))
		}
	case 4:
		p.Body = fmt.Sprintf(`{"id":"bad","tag":"%s"}`, mk)
	case 5:
		p.Body = `{"id": 3, "tag": "` + mk
	case 6:
		p.Body = "text " + mk + strings.Repeat(" pad", r.Range(0, 400))
		if r.Chance(1, 5) {
			p.Body = ")]}',\n" + p.Body // text that begins the way guarded JSON does
		}
		bodyCT = "text/plain"
	case 7:
		p.Body = "<x>" + mk + "</x>"
		bodyCT = "application/xml"
	case 8:
		p.Body = ""
	}
	hdrCT := bodyCT
	if r.Chance(1, 8) {
		hdrCT = simfw.Pick(r, []string{"", "text/html", "application/json; charset=utf-8"})
	}
	if hdrCT != "" {
		p.Headers = [][2]string{{"Content-Type", hdrCT}}
	}
	if r.Chance(2, 3) {
		p.Headers = append(p.Headers, [2]string{"X-Rate", simfw.Pick(r, []string{"5", "12", "12", "fast"})})
	}
	// a Content-Length header: usually right, now and then not (the header set is the caller's; the body is the body)
	switch r.Intn(12) {
	case 0, 1, 2, 3, 4, 5:
		p.Headers = append(p.Headers, [2]string{"Content-Length", fmt.Sprint(len(p.Body))})
	case 6:
		p.Headers = append(p.Headers, [2]string{"Content-Length", fmt.Sprint(len(p.Body) / 2)})
	case 7:
		p.Headers = append(p.Headers, [2]string{"Content-Length", fmt.Sprint(len(p.Body) + 10)})
	}
	// response map: usually holds an entry that selects this status and declares this content type
	seen := map[string]bool{}
	add := func(e RespEntry) {
		if !seen[e.Key] {
			seen[e.Key] = true
			d.Resp.Entries = append(d.Resp.Entries, e)
		}
	}
	if r.Chance(5, 6) {
		key := simfw.Pick(r, []string{fmt.Sprint(p.Status), fmt.Sprint(p.Status), fmt.Sprintf("%dXX", p.Status/100), "default"})
		ct := bodyCT
		if bodyCT == "application/xml" || r.Chance(1, 8) {
			ct = simfw.Pick(r, []string{"application/json", "text/plain", ""})
		}
		add(RespEntry{Key: key, CT: ct, NoSchema: r.Chance(1, 10), ReqHeader: r.Chance(1, 4)})
	}
	pool := []RespEntry{
		{Key: "200", CT: "application/json"}, {Key: "200", CT: "text/plain"}, {Key: "200"},
		{Key: "2XX", CT: "application/json"}, {Key: "4XX", CT: "text/plain"}, {Key: "404", CT: "application/json"},
		{Key: "default", CT: "application/json"}, {Key: "default"}, {Key: "301", CT: "application/json"}, {Key: "304", CT: "application/json"},
	}
	for _, i := range r.Perm(len(pool)) {
		if r.Chance(1, 4) {
			add(pool[i])
		}
	}
	s.Vals = []ValOpts{{MultiError: r.Chance(1, 3), ExcludeRespBody: r.Chance(1, 8), IncludeStatus: r.Chance(1, 3)}}
	if bodyCT == "text/plain" && r.Chance(1, 10) || r.Chance(1, 60) && strings.HasSuffix(p.Body, "}") {
		// a large body
		n := simfw.Pick(r, []int{9000, 9000, 150000})
		if bodyCT == "text/plain" {
			p.Body += strings.Repeat(" big"+mk[:4], n)
		} else if strings.Contains(p.Body, mk) {
			p.Body = strings.Replace(p.Body, mk, mk+strings.Repeat(" big", n), 1)
		}
		s.ReadBuf = 4096
	}
	fault := r.Chance(1, 6) && len(p.Body) > 1
	p.Chunk = chunkPlan(r, len(p.Body), fault)
	if len(p.Body) > 50000 {
		p.Chunk.Sizes = simfw.Pick(r, [][]int{nil, {4096}, {65536, 1, 70000}, {32768}})
	}
	if fault {
		s.Again = true
	}
	// other forms a body takes: a seekable one the caller has read a prefix of; the http.NoBody sentinel
	if !fault {
		switch {
		case p.Body == "" && r.Bool():
			p.Form = "nobody"
		case p.Body != "" && r.Chance(1, 8):
			p.Form, p.Skip = "seek", r.Range(1, 40)
		}
	}
	// sometimes a short history: more responses for the same operation, validated
	// before the first body is read back
	if !fault && r.Chance(1, 3) {
		for i, k := 0, r.Range(1, 2); i < k; i++ {
			m := *p
			m.Body = strings.ReplaceAll(p.Body, mk, fmt.Sprintf("%s-n%d", mk, i+2))
			if r.Bool() && len(m.Body) > 4 {
				m.Body = m.Body + strings.Repeat(" ", r.Range(1, 40))
			}
			m.Chunk = chunkPlan(r, len(m.Body), false)
			s.More = append(s.More, m)
		}
		s.ReadReverse = r.Bool()
		s.ReuseInput = r.Chance(1, 3)
	}
}
