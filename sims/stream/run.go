package stream

import (
	"bytes"
	"context"
	"encoding/json"
	"errors"
	"fmt"
	"io"
	"mime"
	"mime/multipart"
	"net/http"
	"net/url"
	"reflect"
	"sort"
	"strconv"
	"strings"

	"github.com/getkin/kin-openapi/openapi3"
	"github.com/getkin/kin-openapi/openapi3filter"
	"github.com/getkin/kin-openapi/zzsimrt"

	"verif/simenv"
	"verif/simfw"
)

type Sim struct{}

func (Sim) Name() string         { return "stream" }
func (Sim) Properties() []string { return []string{"C13", "C07", "C08"} }
func (Sim) Gen(seed uint64, prop, tier string) any {
	return Gen(seed, prop, tier)
}
func (Sim) Components() (real, stub []string) {
	return []string{
			"openapi3filter.ValidateRequest (security, parameters incl. default population, body read/restore/decode/re-encode)",
			"openapi3filter.ValidateResponse (status selection, header checks, body read/restore/decode)",
			"openapi3 schema validation with default injection, deep copies for oneOf/anyOf", "routers/gorillamux, loader, document validation, JSON/YAML/multipart decoding",
		}, []string{
			"request and response body streams (chunk plan, EOF style, mid-body fault, read-after-close semantics of net/http)",
			"http.Request metadata variants (GetBody nil/ok/err, ContentLength exact/-1, Body nil/NoBody/empty)",
			"AuthenticationFunc per scheme (non-reading, reading all / part of the body, closing it, body-dependent 'signature' check)",
			"the next handler (reads the forwarded body to EOF with a seeded buffer size)",
		}
}
func (Sim) Assumptions() []string {
	return []string{
		"verdicts are compared with the same library build in a neutral environment (fresh document, body as one in-memory chunk, non-reading callback with the same outcomes): a defect of the pure verdict is invisible here by construction",
		"the body-defaults reference model (ApplyDefaults) covers the workload's shapes only: flat and nested properties, array items, one level of allOf/oneOf/anyOf with branches made mutually exclusive by a 'kind' property, object- and array-valued defaults",
		"parameters: 'absent' means not present at all; present-but-empty values are not generated",
		"with default-setting on, only decoded values are compared (re-encoding may change bytes); byte identity is asserted only when every validation skips defaults",
	}
}

func init() { simfw.Register(Sim{}) }

type authCall struct {
	Scheme string
	Scopes string
}

type env struct {
	sharedIn *openapi3filter.ResponseValidationInput // response leg with reuse_input: the one input value all responses go through
	s        *Spec
	log      *simfw.Log
	res      *simfw.Result
	party    string
	shared   map[ValOpts]*openapi3filter.Options // with shared_options: one Options value per option set, used by every validation of the run
	curAuth  openapi3filter.AuthenticationFunc   // the callback of the request being validated (shared Options dispatch to it)
}

// optionsFor is the Options value a validation of the run proper is given: a
// fresh one, or (shared_options) the one value a caller keeps for all its
// requests, as a middleware does.
func (e *env) optionsFor(v ValOpts, auth openapi3filter.AuthenticationFunc) *openapi3filter.Options {
	if !e.s.SharedOptions {
		return e.options(v, auth)
	}
	e.curAuth = auth
	if o, ok := e.shared[v]; ok {
		return o
	}
	if e.shared == nil {
		e.shared = map[ValOpts]*openapi3filter.Options{}
	}
	o := e.options(v, func(ctx context.Context, in *openapi3filter.AuthenticationInput) error { return e.curAuth(ctx, in) })
	e.shared[v] = o
	return o
}

// accepts is the outcome the simulator scripts for the callback (nobody is
// accepted when the caller configured no callback at all).
func (e *env) accepts(name string, scopes []string) bool {
	if e.s.NoAuthFunc {
		return false
	}
	return acceptsScoped(e.s.Auth[name], scopes)
}

func (e *env) options(v ValOpts, auth openapi3filter.AuthenticationFunc) *openapi3filter.Options {
	if e.s.NoAuthFunc {
		auth = nil // the caller configured no callback: every scheme is unauthenticated
	}
	return &openapi3filter.Options{
		MultiError: v.MultiError, SkipSettingDefaults: v.SkipDefaults, ExcludeRequestBody: v.ExcludeBody,
		ExcludeRequestQueryParams: v.ExcludeQuery, ExcludeResponseBody: v.ExcludeRespBody, IncludeResponseStatus: v.IncludeStatus,
		AuthenticationFunc: auth,
	}
}

func accepts(mode string) bool { return !strings.HasSuffix(mode, "fail") }

// acceptsScoped: mode "scoped" is a callback whose verdict depends on the scopes
// it is asked about (the caller holds "read" only).
func acceptsScoped(mode string, scopes []string) bool {
	if mode == "scoped" {
		for _, sc := range scopes {
			if sc != "read" {
				return false
			}
		}
		return true
	}
	return accepts(mode)
}

func baseRequest(q ReqSpec, method string) *http.Request {
	u := "http://sim.test/thing"
	if q.Query != "" {
		u += "?" + q.Query
	}
	req, err := http.NewRequest(method, u, nil)
	if err != nil {
		req, _ = http.NewRequest(method, "http://sim.test/thing", nil)
	}
	req.Host = req.URL.Host
	req.URL.Scheme, req.URL.Host = "", ""
	for _, h := range q.Headers {
		if h[0] != "" {
			req.Header.Add(h[0], h[1])
		}
	}
	if q.CT != "" {
		req.Header.Set("Content-Type", q.CT)
	}
	for _, c := range q.Cookies {
		if c[0] != "" {
			req.AddCookie(&http.Cookie{Name: c[0], Value: c[1]})
		}
	}
	return req
}

type snapshot struct {
	RawQuery string
	Header   http.Header
}

func snap(req *http.Request) snapshot {
	return snapshot{RawQuery: req.URL.RawQuery, Header: req.Header.Clone()}
}

func parts(err error) []string {
	if err == nil {
		return nil
	}
	var out []string
	var walk func(e error)
	walk = func(e error) {
		switch x := e.(type) {
		case openapi3.MultiError:
			for _, m := range x {
				walk(m)
			}
		case *openapi3filter.SecurityRequirementsError:
			out = append(out, "security")
		case *openapi3filter.RequestError:
			switch {
			case x.Parameter != nil:
				out = append(out, "param:"+x.Parameter.In+":"+x.Parameter.Name)
			case x.RequestBody != nil:
				out = append(out, "body")
			default:
				out = append(out, "request")
			}
		default:
			// wrapped errors: look through the wrapper(s)
			if u, ok := e.(interface{ Unwrap() []error }); ok {
				for _, m := range u.Unwrap() {
					walk(m)
				}
				return
			}
			if u := errors.Unwrap(e); u != nil {
				walk(u)
				return
			}
			out = append(out, fmt.Sprintf("other:%T", e))
		}
	}
	walk(err)
	sort.Strings(out)
	return out
}

func (Sim) Run(raw json.RawMessage, prop string, keep bool) (res simfw.Result) {
	var s Spec
	if err := json.Unmarshal(raw, &s); err != nil {
		res.Inconcl = "bad spec: " + err.Error()
		return
	}
	log := &simfw.Log{Keep: keep}
	defer func() {
		res.Steps = log.Len()
		res.LogHash = log.Hash()
		if keep {
			res.Events = log.Events
		}
	}()
	zzsimrt.ResetMapOrder(0)
	if len(s.Vals) == 0 {
		s.Vals = []ValOpts{{}}
	}
	if len(s.Vals) > 3 {
		s.Vals = s.Vals[:3]
	}
	e := &env{s: &s, log: log, res: &res}
	docBytes := s.Doc.JSON()
	world, err := LoadWorld(docBytes)
	if err != nil {
		if strings.HasPrefix(s.Doc.SecOp, "undecl") || strings.HasPrefix(s.Doc.SecDoc, "undecl") {
			// a requirement naming a scheme the document does not declare: if this tree's document
			// validation does not admit that, there is no validated document to speak about
			d2 := s.Doc
			if strings.HasPrefix(d2.SecOp, "undecl") {
				d2.SecOp = "single"
			}
			if strings.HasPrefix(d2.SecDoc, "undecl") {
				d2.SecDoc = "single"
			}
			if _, err2 := LoadWorld(d2.JSON()); err2 == nil {
				res.Probe("shape-not-admitted-by-this-tree")
				res.Class = simfw.ClassKey("not-admitted", s.Doc.SecOp, s.Doc.SecDoc)
				return
			}
		}
		res.Inconcl = "world: " + simfw.Trunc(err.Error(), 60)
		return
	}
	world.PatchSecurity(s.Doc.SecOp)
	if s.Prelude {
		e.prelude()
	}
	if s.RejectedFirst && s.Leg != "response" {
		e.rejectedFirst(world)
	}
	if s.Leg == "response" {
		// a history of responses over one document: all validated first, bodies read afterwards
		var backs []func()
		backs = append(backs, e.response(world, docBytes, s.Resp, false))
		for i, more := range s.More {
			if i >= 3 {
				break
			}
			log.Add("sim", "next-response", fmt.Sprint(i+2), "")
			backs = append(backs, e.response(world, docBytes, more, false))
			res.Probe("resp-history")
		}
		if s.ReuseInput && len(backs) > 1 {
			backs = backs[len(backs)-1:] // one input value: only the last response's body is there to read back
		}
		for _, i := range readOrder(len(backs), s.ReadReverse) {
			backs[i]()
		}
		if s.Again && s.Resp.Chunk.FaultAt > 0 {
			s.Resp.Chunk.FaultAt = 0
			log.Add("sim", "again", "fault-free response on the same document", "")
			e.response(world, docBytes, s.Resp, true)()
		}
		res.Class = simfw.ClassKey("resp", len(s.Doc.Resp.Entries), s.Resp.Status, s.Resp.Method, len(s.Resp.Chunk.Sizes), s.Resp.Chunk.FaultAt > 0, s.Vals[0])
		res.Nontrivial = true
		return
	}
	// requests in flight over one document: all validated first, forwarded bodies read afterwards
	var hs []func()
	hs = append(hs, e.request(world, docBytes, s.Req, false))
	for i, more := range s.MoreReqs {
		if i >= 3 {
			break
		}
		log.Add("sim", "next-request", fmt.Sprint(i+2), "")
		hs = append(hs, e.request(world, docBytes, more, false))
		res.Probe("req-in-flight")
	}
	for _, i := range readOrder(len(hs), s.ReadReverse) {
		hs[i]()
	}
	if s.Again && s.Req.Chunk.FaultAt > 0 {
		s.Req.Chunk.FaultAt = 0
		log.Add("sim", "again", "fault-free request on the same document", "")
		e.request(world, docBytes, s.Req, true)()
	}
	var pnames []string
	for _, p := range s.Doc.Params {
		pnames = append(pnames, p.In[:1]+p.Name+p.Explode)
	}
	res.Class = simfw.ClassKey("req", s.Doc.SecOp, s.Doc.SecDoc, strings.Join(pnames, ","), s.Doc.BodyKind, s.Req.BodyMode, s.Req.GetBody, s.Req.CLUnknown,
		len(s.Req.Chunk.Sizes), s.Req.Chunk.FaultAt > 0, fmt.Sprint(s.Vals), s.Auth["a"], s.Auth["b"], s.Auth["x-c"])
	res.Nontrivial = true
	return
}

// prelude: the process has served a sibling API before (same names, other
// defaults, see SDoc.Sibling). Nothing about these calls is judged; whatever the
// library kept from them must not show in the run proper.
func (e *env) prelude() {
	s := e.s
	sib := s.Doc.Sibling()
	w, err := LoadWorld(sib.JSON())
	if err != nil {
		return
	}
	w.PatchSecurity(sib.SecOp)
	e.res.Probe("prelude-sibling-document")
	defer func() { recover() }()
	if s.Leg == "response" {
		method := s.Resp.Method
		if method != "HEAD" {
			method = "POST"
		}
		req := baseRequest(ReqSpec{}, method)
		route, pp, err := w.Router.FindRoute(req)
		if err != nil {
			return
		}
		h := http.Header{}
		for _, kv := range s.Resp.Headers {
			if kv[0] != "" {
				h.Add(kv[0], kv[1])
			}
		}
		opts := e.options(s.Vals[0], nil)
		openapi3filter.ValidateResponse(context.Background(), &openapi3filter.ResponseValidationInput{
			RequestValidationInput: &openapi3filter.RequestValidationInput{Request: req, PathParams: pp, Route: route, Options: opts},
			Status:                 s.Resp.Status, Header: h, Body: io.NopCloser(strings.NewReader(s.Resp.Body)), Options: opts,
		})
		return
	}
	q := s.Req
	req := baseRequest(q, s.Doc.HTTPMethod())
	if q.BodyMode == "stream" {
		body := []byte(q.Body)
		req.Body = io.NopCloser(bytes.NewReader(body))
		req.ContentLength = int64(len(body))
		req.GetBody = func() (io.ReadCloser, error) { return io.NopCloser(bytes.NewReader(body)), nil }
	}
	route, pp, err := w.Router.FindRoute(req)
	if err != nil {
		return
	}
	auth := func(context.Context, *openapi3filter.AuthenticationInput) error { return nil }
	openapi3filter.ValidateRequest(context.Background(), &openapi3filter.RequestValidationInput{Request: req, PathParams: pp, Route: route, Options: e.options(ValOpts{}, auth)})
}

// rejectedFirst: the caller's first request on this document carries credentials
// nobody accepts. It goes through the same Options values as the requests that
// follow (when they are shared); nothing about it is judged.
func (e *env) rejectedFirst(w *World) {
	s := e.s
	q := s.Req
	req := baseRequest(q, s.Doc.HTTPMethod())
	if q.BodyMode == "stream" {
		body := []byte(q.Body)
		req.Body = io.NopCloser(bytes.NewReader(body))
		req.ContentLength = int64(len(body))
		req.GetBody = func() (io.ReadCloser, error) { return io.NopCloser(bytes.NewReader(body)), nil }
	}
	route, pp, err := w.Router.FindRoute(req)
	if err != nil {
		return
	}
	defer func() { recover() }()
	reject := func(context.Context, *openapi3filter.AuthenticationInput) error { return errors.New("rejected") }
	for _, v := range s.Vals {
		openapi3filter.ValidateRequest(context.Background(), &openapi3filter.RequestValidationInput{Request: req, PathParams: pp, Route: route, Options: e.optionsFor(v, reject)})
	}
	e.res.Probe("rejected-request-first")
}

// request runs the request leg once.
// request runs the validations of one request; what the next handler then does
// (read the forwarded body, with the checks on it) is returned as a closure, so
// that several requests can be in flight: all validated before any forwarded
// body is read.
func (e *env) request(world *World, docBytes []byte, q ReqSpec, again bool) (handler func()) {
	s, log, res := e.s, e.log, e.res
	handler = func() {}
	orig := []byte(q.Body)
	if q.BodyMode != "stream" && q.BodyMode != "empty" {
		orig = nil // no body is sent in the other modes, whatever the (possibly shrunken) spec still carries
	}
	if q.BodyMode == "empty" {
		orig = []byte{}
	}
	tag := ""
	if again {
		tag = "again/"
	}
	violate := func(prop, oracle, sig, detail string) {
		res.Violate(prop, oracle, prop+"/"+tag+sig, detail)
	}

	// ---- neutral run (validation #1 only) ---------------------------------
	var nCalls []authCall
	nAuth := func(_ context.Context, in *openapi3filter.AuthenticationInput) error {
		nCalls = append(nCalls, authCall{in.SecuritySchemeName, strings.Join(in.Scopes, ",")})
		if e.accepts(in.SecuritySchemeName, in.Scopes) {
			return nil
		}
		return errors.New("rejected")
	}
	acceptAll := func(context.Context, *openapi3filter.AuthenticationInput) error { return nil }
	neutral := func(v ValOpts, auths ...openapi3filter.AuthenticationFunc) (nverr error, ok bool) {
		nAuth := openapi3filter.AuthenticationFunc(nAuth)
		if len(auths) > 0 {
			nAuth = auths[0]
		}
		neutralWorld, err := LoadWorld(docBytes)
		if err != nil {
			res.Inconcl = "neutral world: " + err.Error()
			return nil, false
		}
		neutralWorld.PatchSecurity(s.Doc.SecOp)
		nreq := baseRequest(q, s.Doc.HTTPMethod())
		switch q.BodyMode {
		case "stream", "empty":
			nreq.Body = io.NopCloser(bytes.NewReader(orig))
			nreq.ContentLength = int64(len(orig))
			body := orig
			nreq.GetBody = func() (io.ReadCloser, error) { return io.NopCloser(bytes.NewReader(body)), nil }
		case "nobody":
			nreq.Body = http.NoBody
		}
		nroute, npp, nerr := neutralWorld.Router.FindRoute(nreq)
		if nerr != nil {
			res.Inconcl = "neutral route: " + nerr.Error()
			return nil, false
		}
		func() {
			defer func() {
				if p := recover(); p != nil {
					nverr = fmt.Errorf("neutral panic: %v", p)
				}
			}()
			nopts := e.options(v, nAuth)
			if len(auths) > 0 {
				nopts.AuthenticationFunc = nAuth // (an explicit callback also where the run's caller configured none)
			}
			nverr = openapi3filter.ValidateRequest(context.Background(), &openapi3filter.RequestValidationInput{
				Request: nreq, PathParams: npp, Route: nroute, Options: nopts})
		}()
		return nverr, true
	}
	nverr, ok := neutral(s.Vals[0])
	if !ok {
		return
	}
	// the parts that fail whatever the callback says (parameters, body): a multi-error neutral run with a
	// callback that accepts everything
	var okParts []string
	okPartsDone := false
	partsWithAcceptingCallback := func() []string {
		if !okPartsDone {
			okPartsDone = true
			vm := s.Vals[0]
			vm.MultiError = true
			if all, ok := neutral(vm, acceptAll); ok {
				okParts = parts(all)
			}
		}
		return okParts
	}
	// in fail-fast mode which failing part is named first is not the property's business (it may follow
	// map order): the one part named has to be among all the failing parts, which a multi-error neutral run gives
	nAllParts := parts(nverr)
	if !s.Vals[0].MultiError && nverr != nil {
		vm := s.Vals[0]
		vm.MultiError = true
		if all, ok := neutral(vm); ok && all != nil {
			nAllParts = parts(all)
		}
	}

	// ---- the simulated history ---------------------------------------------
	zzsimrt.ResetMapOrder(s.MapSeed) // map iteration order inside the library is the simulator's choice
	defer zzsimrt.ResetMapOrder(0)
	if s.MapSeed != 0 {
		res.Probe("map-order-permuted")
	}
	e.party = "client"
	req := baseRequest(q, s.Doc.HTTPMethod())
	var st *simenv.Stream
	switch q.BodyMode {
	case "stream", "empty":
		st = simenv.NewStream("reqbody", orig, q.Chunk, log, &e.party)
		req.Body = st
		req.ContentLength = int64(len(orig))
		if q.CLUnknown {
			req.ContentLength = -1
		}
		if q.CLZero {
			req.ContentLength = 0
		}
		if q.CLSmall && len(orig) >= 2 {
			req.ContentLength = int64(len(orig) / 2)
		}
		origCL := req.ContentLength
		_ = origCL
		switch q.GetBody {
		case "ok":
			body := orig
			nget := 0
			req.GetBody = func() (io.ReadCloser, error) {
				nget++
				log.Add(e.party, "GetBody", "", "ok")
				// like a file-backed or pooled body: unusable once closed
				return simenv.NewStream(fmt.Sprintf("getbody#%d", nget), body, simenv.ChunkPlan{}, log, &e.party), nil
			}
		case "err":
			req.GetBody = func() (io.ReadCloser, error) {
				log.Add(e.party, "GetBody", "", "err")
				return nil, errors.New("GetBody unavailable")
			}
		}
	case "nobody":
		req.Body = http.NoBody
	}
	before := snap(req)
	route, pp, rerr := world.Router.FindRoute(req)
	if rerr != nil {
		res.Inconcl = "route: " + rerr.Error()
		return
	}
	var calls []authCall
	authBodyBad := ""
	authTruncated := ""
	curVal := 0
	auth := func(_ context.Context, in *openapi3filter.AuthenticationInput) error {
		prev := e.party
		e.party = "auth:" + in.SecuritySchemeName
		defer func() { e.party = prev }()
		mode := s.Auth[in.SecuritySchemeName]
		calls = append(calls, authCall{in.SecuritySchemeName, strings.Join(in.Scopes, ",")})
		r := in.RequestValidationInput.Request
		outcome := acceptsScoped(mode, in.Scopes)
		var readErr error
		readAll := func() []byte {
			if r.Body == nil {
				return nil
			}
			data, _, err := simenv.ReadAllLimited(r.Body, 97, 1<<14+8*len(orig))
			readErr = err
			return data
		}
		faultBefore := st != nil && st.FaultFired // the stream had already failed when this callback was consulted
		switch {
		case strings.HasPrefix(mode, "read"), mode == "close_ok", mode == "sig":
			data := readAll()
			res.Probe("auth-read-all")
			if faultBefore && r.Body != nil && readErr == nil && len(data) < len(orig) && bytes.HasPrefix(orig, data) {
				// whatever the verdict: after a failed read the callback may find the error again, never a
				// shorter body that ends as if it were complete
				authTruncated = fmt.Sprintf("after the stream failed with %q, the callback for %q was handed a body of %d of %d bytes that ends with a clean EOF", q.Chunk.FaultKind, in.SecuritySchemeName, len(data), len(orig))
				res.Probe("auth-after-fault-truncated")
			} else if faultBefore {
				res.Probe("auth-after-fault")
			}
			if st != nil && !st.FaultFired && curVal == 0 && !bytes.Equal(data, orig) {
				authBodyBad = fmt.Sprintf("callback for %q read %d of %d body bytes", in.SecuritySchemeName, len(data), len(orig))
				if mode == "sig" {
					outcome = false // the signature over a truncated body does not verify
				}
			}
			if mode == "close_ok" && r.Body != nil {
				r.Body.Close()
			}
		case strings.HasPrefix(mode, "part"):
			if r.Body != nil {
				buf := make([]byte, 3)
				r.Body.Read(buf)
			}
			res.Probe("auth-read-part")
		}
		log.Add(e.party, "callback", in.SecuritySchemeName+" scopes="+strings.Join(in.Scopes, ","), fmt.Sprintf("%s->%v", mode, outcome))
		if outcome {
			return nil
		}
		return errors.New("rejected")
	}

	verdicts := make([]error, len(s.Vals))
	var snaps []snapshot
	panicked := false
	for i, v := range s.Vals {
		e.party = fmt.Sprintf("validator#%d", i+1)
		curVal = i
		log.Add("sim", "validate", fmt.Sprintf("#%d %+v", i+1, v), "")
		input := &openapi3filter.RequestValidationInput{Request: req, PathParams: pp, Route: route, Options: e.optionsFor(v, auth)}
		func() {
			defer func() {
				if p := recover(); p != nil {
					panicked = true
					violate("C13", "no-panic", "panic", fmt.Sprintf("validation #%d panicked: %v", i+1, p))
				}
			}()
			verdicts[i] = openapi3filter.ValidateRequest(context.Background(), input)
		}()
		log.Add("sim", "verdict", fmt.Sprintf("#%d", i+1), fmt.Sprintf("%v", parts(verdicts[i])))
		snaps = append(snaps, snap(req))
		if panicked {
			return
		}
	}
	faultSeen := st != nil && st.FaultFired
	if faultSeen {
		res.Fault("reqbody_" + q.Chunk.FaultKind)
	}
	// a request whose body decoded and satisfied its schema may not be rejected because the
	// body with its defaults could not be written back
	for i := range s.Vals {
		if rewriteFailed(verdicts[i]) {
			res.Probe("defaults-rewrite-failed")
			violate("C13", "R2-body-defaults", "defaults-rewrite-failed:"+s.Doc.BodyKind, fmt.Sprintf("validation #%d rejected the request only because the body with its defaults could not be re-encoded: %v", i+1, verdicts[i]))
			break
		}
	}
	if st != nil {
		if st.Reads > 4*len(orig)+64 {
			violate("C13", "bounded-reads", "unbounded-reads", fmt.Sprintf("%d reads issued for a %d-byte body", st.Reads, len(orig)))
		}
		res.Probe(fmt.Sprintf("body-parties-%d", len(st.ReadsByParty)))
	}

	// ---- R3 (C07 clause): verdict independent of delivery and callback reading
	if authTruncated != "" {
		violate("C07", "auth-body", "auth-body-truncated-silently", authTruncated)
	}
	if faultSeen {
		// the library observed a stream error (every reader of the original stream is the library): it must not accept
		for i := range s.Vals {
			// (only where the verdict needs the bytes: a declared request body that is validated. Where
			// nothing has to look at the body, accepting is what the property demands.)
			needsBody := s.Doc.BodyKind != "" && !s.Vals[i].ExcludeBody
			intact := nverr // what the intact request deserves under this validation's options
			if i > 0 && s.Vals[i] != s.Vals[0] {
				intact, _ = neutral(s.Vals[i])
			}
			if needsBody && q.GetBody == "ok" && verdicts[i] == nil && intact == nil {
				// the request carries a GetBody that yields the complete body: a library that goes back to it after
				// a failed read has every byte, and accepting what the intact request deserves is right
				res.Probe("fault-recoverable-through-getbody")
				continue
			}
			if needsBody && verdicts[i] == nil && strings.HasPrefix(st.FaultSeenBy, fmt.Sprintf("validator#%d", i+1)) {
				violate("C07", "fault-accept", "accept-after-stream-error", fmt.Sprintf("validation #%d accepted although a Read it issued returned %q", i+1, q.Chunk.FaultKind))
			}
		}
	} else {
		if st != nil && st.CloseErrs > 0 {
			// every byte was delivered; whether an error from Close may turn into a rejection is nobody's promise
			res.Fault("reqbody_close_err")
		} else if (verdicts[0] == nil) != (nverr == nil) {
			violate("C07", "verdict", fmt.Sprintf("verdict:%v-vs-neutral-%v", verdicts[0] == nil, nverr == nil),
				fmt.Sprintf("validation #1 says %v; the same request as one in-memory chunk with a non-reading callback says %v (chunk plan %+v, GetBody=%q, ContentLength unknown=%v, auth=%v)", verdicts[0], nverr, q.Chunk, q.GetBody, q.CLUnknown, s.Auth))
		} else if got, want := parts(verdicts[0]), nAllParts; s.Vals[0].MultiError && !reflect.DeepEqual(got, want) {
			violate("C07", "failing-parts", "failing-parts", fmt.Sprintf("failing parts %v; neutral run %v (multi-error=%v, auth=%v)", got, want, s.Vals[0].MultiError, s.Auth))
		} else if s.Vals[0].MultiError && !partsIndependent(got, partsWithAcceptingCallback(), SecurityModel(s.Doc, e.accepts)) {
			// "the errors returned are exactly the failing parts": whether parameters and body fail does not
			// depend on what the callback says, and the security part is what the requirement semantics say
			violate("C07", "failing-parts", "failing-parts-not-independent", fmt.Sprintf("multi-error validation reports %v; with a callback accepting everything the same request fails in %v, and the requirement semantics say security passes=%v: the failing parts are not their union (auth=%v)", got, partsWithAcceptingCallback(), SecurityModel(s.Doc, e.accepts), s.Auth))
		} else if !s.Vals[0].MultiError && !subset(got, want) {
			violate("C07", "failing-parts", "failing-parts", fmt.Sprintf("fail-fast validation names %v, which is not among the failing parts %v of the neutral run (auth=%v)", got, want, s.Auth))
		}
		// the security part against the reference model of the requirement semantics
		wantSecOK := SecurityModel(s.Doc, e.accepts)
		gotSecOK := true
		for _, p := range parts(verdicts[0]) {
			if p == "security" || p == "request" {
				gotSecOK = false
			}
		}
		if gotSecOK != wantSecOK && (s.Vals[0].MultiError || !gotSecOK || verdicts[0] == nil) {
			// (fail-fast mode reports only the first failing part, and security is checked first,
			// so a missing security failure is conclusive there too)
			violate("C07", "security-model", fmt.Sprintf("security-model:%s/%s", s.Doc.SecOp, s.Doc.SecDoc),
				fmt.Sprintf("security part accepted=%v but the requirement semantics say %v (operation-level %q, document-level %q, callback outcomes %v)", gotSecOK, wantSecOK, s.Doc.SecOp, s.Doc.SecDoc, s.Auth))
		}
		res.Probe(fmt.Sprintf("security-model-%v", wantSecOK))
		// callback invocations: every call is about a (scheme, scopes) pair of the effective requirement
		// list (order and number are not part of the property: AND over the schemes of a requirement is
		// order-independent and may stop at the first rejection)
		allowed := map[authCall]bool{}
		for _, c := range AllowedAuthCalls(s.Doc) {
			allowed[authCall{c[0], c[1]}] = true
		}
		for _, c := range calls {
			if !allowed[c] {
				violate("C07", "auth-calls", "auth-call-outside-requirements", fmt.Sprintf("the callback was asked about scheme %q with scopes %q, which no requirement in effect lists (operation-level %q, document-level %q)", c.Scheme, c.Scopes, s.Doc.SecOp, s.Doc.SecDoc))
				break
			}
		}
		_ = nCalls
		if authBodyBad != "" {
			violate("C07", "auth-body", "auth-body-truncated", authBodyBad)
		}
	}

	handler = func() {
		// ---- the next handler reads the forwarded body -----------------------------
		e.party = "handler"
		var final []byte
		var finalErr error
		finalReads := 0
		if req.Body != nil {
			final, finalReads, finalErr = simenv.ReadAllLimited(req.Body, s.ReadBuf, 1<<16+8*len(orig))
			req.Body.Close()
		}
		log.Add("handler", "read-forwarded-body", fmt.Sprint(len(final)), fmt.Sprint(finalErr))
		_ = finalReads
		if st != nil && st.FaultFired && !faultSeen {
			// nobody before the handler touched the stream: the handler met the fault itself
			res.Fault("reqbody_" + q.Chunk.FaultKind + "_at_handler")
			faultSeen = true
		}
		if faultSeen {
			res.Probe("fault-run")
			// R1/R2 are not asserted for bytes the stream never delivered. One thing is: an accepted request
			// whose forwarded body ends with a clean EOF before the last byte sent hands the next handler wrong
			// data (the stream's error may surface again, or the bytes; not a shorter body passed off as whole)
			accepted := true
			for _, v := range verdicts {
				if v != nil {
					accepted = false
				}
			}
			if accepted && req.Body != nil && finalErr == nil && len(final) < len(orig) && bytes.HasPrefix(orig, final) && !(q.BodyMode == "nil" || q.BodyMode == "nobody") {
				violate("C13", "R1-readable", "silently-truncated-body", fmt.Sprintf("the stream failed with %q after %d bytes; the request was accepted and the next handler reads %d of %d bytes followed by a clean EOF (ContentLength %d)", q.Chunk.FaultKind, q.Chunk.FaultAt, len(final), len(orig), req.ContentLength))
			}
			return
		}

		// ---- R1 (C13): the body is still readable in full -----------------------
		skipAll := true
		defaultsBody := false
		lastDefaultsAccepted := -1
		defaultsOn := false // default-setting reached the body in some validation (any body kind)
		for i, v := range s.Vals {
			if !v.SkipDefaults {
				skipAll = false
				if !v.ExcludeBody && s.Doc.BodyKind == "json" {
					defaultsBody = true
				}
				if !v.ExcludeBody {
					defaultsOn = true
				}
				if verdicts[i] == nil {
					lastDefaultsAccepted = i
				}
			}
		}
		bodySig := func(k string) string {
			rej := "accepted"
			for _, v := range verdicts {
				if v != nil {
					rej = "rejected"
				}
			}
			return fmt.Sprintf("%s:%s", k, rej)
		}
		if finalErr != nil {
			violate("C13", "R1-readable", bodySig("body-read-error"), fmt.Sprintf("next handler's read of the forwarded body failed: %v (after %d bytes of %d)", finalErr, len(final), len(orig)))
		} else {
			var expected any
			haveExpected := false
			if defaultsBody && s.Doc.Body != nil {
				var v any
				if json.Unmarshal(orig, &v) == nil {
					expected = ApplyDefaults(s.Doc.Body, v)
					haveExpected = true
				}
			}
			same := bytes.Equal(final, orig)
			switch {
			case same:
				// fine unless defaults had to appear
				if !defaultsBody && defaultsOn && lastDefaultsAccepted >= 0 && !s.Vals[lastDefaultsAccepted].ExcludeBody && e.flatBodyLacksDefault(req, orig) {
					// a form / multipart body accepted with default-setting on, forwarded as received although a
					// property with a schema default is absent (the pinned tree rejects instead: known finding K2)
					violate("C13", "R2-body-defaults", "body-defaults-missing:"+s.Doc.BodyKind, fmt.Sprintf("accepted with default-setting on, but the forwarded %s body is the original %q, which lacks a property that has a schema default", s.Doc.BodyKind, simfw.Trunc(string(orig), 160)))
				}
				if haveExpected && lastDefaultsAccepted >= 0 && !s.Vals[lastDefaultsAccepted].ExcludeBody {
					var ov any
					json.Unmarshal(orig, &ov)
					if !reflect.DeepEqual(ov, expected) {
						violate("C13", "R2-body-defaults", "body-defaults-missing", fmt.Sprintf("accepted with default-setting on, but the forwarded body is the original %s; expected defaults: %s", simfw.Trunc(string(orig), 200), js(expected)))
					} else {
						res.Probe("body-nothing-to-default")
					}
				}
			case !defaultsBody && defaultsOn && e.flatBodyWithDefaults(req, orig, final):
				// a form/multipart body re-encoded with exactly the original fields plus the schema's defaults:
				// what C13 asks for (not produced by the pinned tree, see known finding K2)
				res.Probe("flat-body-defaults-applied")
			case !defaultsBody:
				violate("C13", "R1-readable", bodySig("body-altered"), fmt.Sprintf("forwarded body differs from the received one: got %d bytes %q, sent %d bytes %q", len(final), simfw.Trunc(string(final), 120), len(orig), simfw.Trunc(string(orig), 120)))
			default:
				var fv any
				if err := json.Unmarshal(final, &fv); err != nil || !haveExpected {
					violate("C13", "R1-readable", bodySig("body-altered"), fmt.Sprintf("forwarded body is neither the original nor a JSON value: %q (sent %q)", simfw.Trunc(string(final), 120), simfw.Trunc(string(orig), 120)))
				} else if !reflect.DeepEqual(fv, expected) {
					violate("C13", "R2-body-defaults", "body-defaults-wrong", fmt.Sprintf("forwarded body %s; reference model expects %s (original %s)", js(fv), js(expected), simfw.Trunc(string(orig), 200)))
				} else {
					res.Probe("body-defaults-applied")
				}
			}
			// ContentLength and GetBody bookkeeping
			untouchedZero := (q.CLZero && req.ContentLength == 0) || (q.CLSmall && req.ContentLength == int64(len(orig)/2)) // left as received
			if req.ContentLength != -1 && !untouchedZero && req.ContentLength != int64(len(final)) && !(req.Body == nil || q.BodyMode == "nil" || q.BodyMode == "nobody") {
				violate("C13", "R1-content-length", bodySig("content-length"), fmt.Sprintf("ContentLength=%d but %d bytes are readable", req.ContentLength, len(final)))
			}
			if req.GetBody != nil {
				if rc, err := req.GetBody(); err == nil && rc != nil {
					again, _, _ := simenv.ReadAllLimited(rc, 512, 1<<16+8*len(orig))
					if !bytes.Equal(again, final) {
						violate("C13", "R1-getbody", bodySig("getbody-stale"), fmt.Sprintf("GetBody yields %q but the forwarded body was %q", simfw.Trunc(string(again), 100), simfw.Trunc(string(final), 100)))
					}
					res.Probe("getbody-checked")
				}
			}
		}

		// ---- R2 (C13): parameters ------------------------------------------------------
		after := snaps[len(snaps)-1]
		if skipAll {
			if after.RawQuery != before.RawQuery || !reflect.DeepEqual(after.Header, before.Header) {
				violate("C13", "R2-skip-identity", "skip-defaults-changed-request", fmt.Sprintf("default-setting skipped, yet the request changed: query %q -> %q, headers %v -> %v", before.RawQuery, after.RawQuery, before.Header, after.Header))
			}
			res.Probe("skip-identity")
		} else if lastDefaultsAccepted >= 0 && lastDefaultsAccepted == len(s.Vals)-1 && allSame(s.Vals) {
			e.checkParamDefaults(before, after, s.Vals[lastDefaultsAccepted], violate)
			// idempotence: the forwarded request validates again and nothing changes further
			e.checkIdempotent(docBytes, q, after, final, s.Vals[lastDefaultsAccepted], violate)
		}
		if len(s.Vals) >= 2 && verdicts[0] == nil && !s.Vals[0].SkipDefaults && reflect.DeepEqual(s.Vals[0], s.Vals[1]) {
			if verdicts[1] != nil {
				violate("C13", "R2-idempotent", "second-validation-rejects", fmt.Sprintf("the request accepted (with defaults) by validation #1 is rejected by an identical validation #2: %v", verdicts[1]))
			} else if !reflect.DeepEqual(snaps[0], snaps[1]) {
				violate("C13", "R2-idempotent", "second-validation-changes", fmt.Sprintf("validation #2 changed the request again: query %q -> %q, headers %v -> %v", snaps[0].RawQuery, snaps[1].RawQuery, snaps[0].Header, snaps[1].Header))
			}
			res.Probe("second-validation")
		}

	}
	return handler
}

// flatBodyWithDefaults: final is a form / multipart encoding of exactly the
// fields of orig plus defaulted properties that orig lacks.
func (e *env) flatBodyWithDefaults(req *http.Request, orig, final []byte) bool {
	d := e.s.Doc
	if d.Body == nil {
		return false
	}
	decode := func(b []byte) (map[string][]string, bool) {
		switch d.BodyKind {
		case "form":
			v, err := url.ParseQuery(string(b))
			return v, err == nil
		case "multipart":
			_, params, err := mime.ParseMediaType(req.Header.Get("Content-Type"))
			if err != nil {
				return nil, false
			}
			out := map[string][]string{}
			mr := multipart.NewReader(bytes.NewReader(b), params["boundary"])
			for {
				part, err := mr.NextPart()
				if err == io.EOF {
					return out, true
				}
				if err != nil {
					return nil, false
				}
				val, err := io.ReadAll(part)
				if err != nil {
					return nil, false
				}
				out[part.FormName()] = append(out[part.FormName()], string(val))
			}
		}
		return nil, false
	}
	of, ok1 := decode(orig)
	ff, ok2 := decode(final)
	if !ok1 || !ok2 {
		return false
	}
	expect := map[string][]string{}
	for k, v := range of {
		expect[k] = v
	}
	added := false
	for name, n := range d.Body.Props {
		if _, has := of[name]; !has && n.Default != nil {
			got, present := ff[name]
			if !present || len(got) != 1 || !sameScalar(got[0], n.Default) {
				return false
			}
			expect[name] = got
			added = true
		}
	}
	return added && reflect.DeepEqual(map[string][]string(ff), expect)
}

// flatBodyLacksDefault: orig is a well-formed form / multipart body in which a
// property with a schema default is absent.
func (e *env) flatBodyLacksDefault(req *http.Request, orig []byte) bool {
	d := e.s.Doc
	if d.Body == nil || (d.BodyKind != "form" && d.BodyKind != "multipart") || len(orig) == 0 {
		return false // (no body at all: nothing to put defaults into)
	}
	var fields map[string][]string
	switch d.BodyKind {
	case "form":
		v, err := url.ParseQuery(string(orig))
		if err != nil {
			return false
		}
		fields = v
	default:
		_, params, err := mime.ParseMediaType(req.Header.Get("Content-Type"))
		if err != nil {
			return false
		}
		fields = map[string][]string{}
		mr := multipart.NewReader(bytes.NewReader(orig), params["boundary"])
		for {
			part, err := mr.NextPart()
			if err == io.EOF {
				break
			}
			if err != nil {
				return false
			}
			fields[part.FormName()] = append(fields[part.FormName()], "")
		}
	}
	for name, n := range d.Body.Props {
		if _, has := fields[name]; !has && n.Default != nil {
			return true
		}
	}
	return false
}

// sameScalar: the text is a rendering of the default value (numbers by value,
// everything else by its plain text).
func sameScalar(text string, def any) bool {
	if text == fmt.Sprint(def) {
		return true
	}
	if f, ok := def.(float64); ok {
		g, err := strconv.ParseFloat(text, 64)
		return err == nil && g == f
	}
	return false
}

func rewriteFailed(err error) bool {
	switch x := err.(type) {
	case openapi3.MultiError:
		for _, m := range x {
			if rewriteFailed(m) {
				return true
			}
		}
	case *openapi3filter.RequestError:
		// structure, not message text: a body error caused by "unsupported format" for a body kind whose
		// decoding IS supported can only come from writing the body back
		var pe *openapi3filter.ParseError
		return x.RequestBody != nil && errors.As(x.Err, &pe) && pe.Kind == openapi3filter.KindUnsupportedFormat
	}
	return false
}

// partsIndependent: got == (parts failing under an all-accepting callback, minus
// security ones) ∪ ({security} if the requirement semantics say it fails).
func partsIndependent(got, withAccepting []string, securityPasses bool) bool {
	want := map[string]bool{}
	for _, p := range withAccepting {
		if p != "security" && p != "request" {
			want[p] = true
		}
	}
	have := map[string]bool{}
	sec := false
	for _, p := range got {
		if p == "security" || p == "request" {
			sec = true
			continue
		}
		have[p] = true
	}
	if sec == securityPasses {
		return false
	}
	return reflect.DeepEqual(have, want) || (len(have) == 0 && len(want) == 0)
}

// seekBody is a body that can seek (a file, a buffered upstream response).
type seekBody struct{ *bytes.Reader }

func (seekBody) Close() error { return nil }

func subset(a, b []string) bool {
	in := map[string]bool{}
	for _, x := range b {
		in[x] = true
	}
	for _, x := range a {
		if !in[x] {
			return false
		}
	}
	return true
}

func readOrder(n int, reverse bool) []int {
	out := make([]int, n)
	for i := range out {
		out[i] = i
		if reverse {
			out[i] = n - 1 - i
		}
	}
	return out
}

func allSame(vs []ValOpts) bool {
	for _, v := range vs[1:] {
		if v != vs[0] {
			return false
		}
	}
	return true
}

func js(v any) string {
	b, _ := json.Marshal(v)
	return simfw.Trunc(string(b), 300)
}

func cookieMap(h http.Header) map[string][]string {
	r := http.Request{Header: h}
	out := map[string][]string{}
	for _, c := range r.Cookies() {
		out[c.Name] = append(out[c.Name], c.Value)
	}
	return out
}

// checkParamDefaults: every absent parameter with a default appears exactly
// once with that default; everything else is as received.
func (e *env) checkParamDefaults(before, after snapshot, v ValOpts, violate func(prop, oracle, sig, detail string)) {
	bq, _ := url.ParseQuery(before.RawQuery)
	aq, _ := url.ParseQuery(after.RawQuery)
	bc, ac := cookieMap(before.Header), cookieMap(after.Header)
	expectQ := url.Values{}
	for k, vs := range bq {
		expectQ[k] = append([]string{}, vs...)
	}
	expectH := before.Header.Clone()
	expectH.Del("Cookie")
	expectC := map[string][]string{}
	for k, vs := range bc {
		expectC[k] = vs
	}
	// numeric defaults that were inserted are compared by value: any rendering of the number is the default
	numeric := map[string]bool{}
	isNum := func(p ParamDecl) bool {
		if arr, ok := p.Default.([]any); ok && len(arr) > 0 {
			for _, x := range arr {
				if _, f := x.(float64); !f {
					return false
				}
			}
			return true
		}
		_, f := p.Default.(float64)
		return f
	}
	for _, p := range e.s.Doc.EffectiveParams() {
		if p.Content {
			// a parameter declared through `content`: whether its default is populated is left open (the
			// pinned tree does not); what is forwarded must validate again, which checkIdempotent sees
			delete(aq, p.Name)
			delete(bq, p.Name)
			delete(expectQ, p.Name)
			continue
		}
		if p.Default == nil {
			continue
		}
		var vals []string
		if arr, ok := p.Default.([]any); ok {
			if p.Explode == "false" {
				var ss []string
				for _, x := range arr {
					ss = append(ss, fmt.Sprint(x))
				}
				vals = []string{strings.Join(ss, ",")}
			} else { // explode true, or unset: form style explodes by default
				for _, x := range arr {
					vals = append(vals, fmt.Sprint(x))
				}
			}
		} else {
			vals = []string{fmt.Sprint(p.Default)}
		}
		switch p.In {
		case "query":
			if v.ExcludeQuery {
				continue
			}
			if _, present := bq[p.Name]; !present {
				expectQ[p.Name] = vals
				numeric["query:"+strings.ToLower(p.Name)] = isNum(p)
				e.res.Probe("default-query")
			}
		case "header":
			if len(before.Header.Values(p.Name)) == 0 {
				expectH[http.CanonicalHeaderKey(p.Name)] = vals
				numeric["header:"+strings.ToLower(p.Name)] = isNum(p)
				e.res.Probe("default-header")
			}
		case "cookie":
			if _, present := bc[p.Name]; !present {
				expectC[p.Name] = vals
				numeric["cookie:"+strings.ToLower(p.Name)] = isNum(p)
				e.res.Probe("default-cookie")
			}
		}
	}
	canonIn := func(in string, m map[string][]string) map[string][]string {
		out := map[string][]string{}
		for k, vs := range m {
			c := append([]string{}, vs...)
			if numeric[in+":"+strings.ToLower(k)] {
				for i, x := range c {
					parts := strings.Split(x, ",")
					for j, y := range parts {
						if f, err := strconv.ParseFloat(y, 64); err == nil {
							parts[j] = strconv.FormatFloat(f, 'g', -1, 64)
						}
					}
					c[i] = strings.Join(parts, ",")
				}
			}
			out[k] = c
		}
		return out
	}
	sortVals := func(m map[string][]string) map[string][]string { return canonIn("query", m) }
	// (with the query-exclusion option nothing is asserted about query parameters: the option removes
	// them from validation, and whether their defaults are still populated is not part of C13)
	if !v.ExcludeQuery && !reflect.DeepEqual(sortVals(aq), sortVals(expectQ)) {
		what := "query"
		for _, p := range e.s.Doc.EffectiveParams() {
			if p.In == "query" && p.Type == "array" {
				if _, present := bq[p.Name]; !present && !reflect.DeepEqual(aq[p.Name], expectQ[p.Name]) {
					what = "query-array-explode=" + p.Explode
				}
			}
		}
		violate("C13", "R2-param-defaults", "param-defaults:"+what, fmt.Sprintf("forwarded query %v; expected %v (received %q)", aq, expectQ, before.RawQuery))
	}
	ah := after.Header.Clone()
	ah.Del("Cookie")
	if !reflect.DeepEqual(canonIn("header", ah), canonIn("header", expectH)) {
		violate("C13", "R2-param-defaults", "param-defaults:header", fmt.Sprintf("forwarded headers %v; expected %v", ah, expectH))
	}
	if !reflect.DeepEqual(canonIn("cookie", ac), canonIn("cookie", expectC)) && !(len(ac) == 0 && len(expectC) == 0) {
		violate("C13", "R2-param-defaults", "param-defaults:cookie", fmt.Sprintf("forwarded cookies %v; expected %v", ac, expectC))
	}
}

// checkIdempotent validates the forwarded request again on a fresh document.
func (e *env) checkIdempotent(docBytes []byte, q ReqSpec, after snapshot, final []byte, v ValOpts, violate func(prop, oracle, sig, detail string)) {
	w, err := LoadWorld(docBytes)
	if err != nil {
		return
	}
	w.PatchSecurity(e.s.Doc.SecOp)
	req, _ := http.NewRequest(e.s.Doc.HTTPMethod(), "http://sim.test/thing", bytes.NewReader(final))
	req.Host = "sim.test"
	req.URL.Scheme, req.URL.Host = "", ""
	req.URL.RawQuery = after.RawQuery
	req.Header = after.Header.Clone()
	if q.BodyMode == "nil" || q.BodyMode == "nobody" {
		req.Body = http.NoBody
		req.GetBody = nil
	}
	route, pp, rerr := w.Router.FindRoute(req)
	if rerr != nil {
		return
	}
	auth := func(_ context.Context, in *openapi3filter.AuthenticationInput) error {
		if e.accepts(in.SecuritySchemeName, in.Scopes) {
			return nil
		}
		return errors.New("rejected")
	}
	b0 := snap(req)
	verr := openapi3filter.ValidateRequest(context.Background(), &openapi3filter.RequestValidationInput{Request: req, PathParams: pp, Route: route, Options: e.options(v, auth)})
	if verr != nil {
		what := "other"
		for _, p := range parts(verr) {
			what = p
		}
		for _, p := range e.s.Doc.EffectiveParams() {
			if p.Type == "array" && strings.HasSuffix(what, ":"+p.Name) {
				what += "/explode=" + p.Explode
			}
		}
		violate("C13", "R2-idempotent", "forwarded-request-rejected:"+what, fmt.Sprintf("the forwarded request (query %q, body %q) does not validate again: %v", after.RawQuery, simfw.Trunc(string(final), 120), verr))
		return
	}
	a0 := snap(req)
	var again []byte
	if req.Body != nil {
		again, _, _ = simenv.ReadAllLimited(req.Body, 512, 1<<16+8*len(final))
	}
	var x, y any
	bodySame := bytes.Equal(again, final) || (json.Unmarshal(again, &x) == nil && json.Unmarshal(final, &y) == nil && reflect.DeepEqual(x, y))
	if !reflect.DeepEqual(a0, b0) || !bodySame {
		violate("C13", "R2-idempotent", "revalidation-changes", fmt.Sprintf("validating the forwarded request again changed it: query %q -> %q; headers %v -> %v; body %q -> %q", b0.RawQuery, a0.RawQuery, b0.Header, a0.Header, simfw.Trunc(string(final), 80), simfw.Trunc(string(again), 80)))
	}
	e.res.Probe("idempotence-checked")
}

// response runs the response leg once (C08 clause).
// response validates one response; the check that its body is still readable
// is returned as a closure, so that a history of several responses can be
// validated first and read afterwards (a body restored over storage that a
// later validation reuses shows only then).
func (e *env) response(world *World, docBytes []byte, p RespSpec, again bool) (readBack func()) {
	s, log, res := e.s, e.log, e.res
	readBack = func() {}
	tag := ""
	if again {
		tag = "again/"
	}
	violate := func(oracle, sig, detail string) { res.Violate("C08", oracle, "C08/"+tag+sig, detail) }
	method := p.Method
	if method != "HEAD" {
		method = "POST"
	}
	mkInput := func(w *World, body io.ReadCloser) (*openapi3filter.ResponseValidationInput, error) {
		req := baseRequest(ReqSpec{}, method)
		route, pp, err := w.Router.FindRoute(req)
		if err != nil {
			return nil, err
		}
		h := http.Header{}
		for _, kv := range p.Headers {
			if kv[0] != "" {
				h.Add(kv[0], kv[1])
			}
		}
		opts := e.options(s.Vals[0], nil)
		return &openapi3filter.ResponseValidationInput{
			RequestValidationInput: &openapi3filter.RequestValidationInput{Request: req, PathParams: pp, Route: route, Options: opts},
			Status:                 p.Status, Header: h, Body: body, Options: opts,
		}, nil
	}
	orig := []byte(p.Body)
	nw, err := LoadWorld(docBytes)
	if err != nil {
		res.Inconcl = "neutral world"
		return
	}
	nst := simenv.NewStream("neutral", orig, simenv.ChunkPlan{}, nil, nil)
	nin, err := mkInput(nw, nst)
	if err != nil {
		res.Inconcl = "route: " + err.Error()
		return
	}
	var nverr error
	func() {
		defer func() {
			if r := recover(); r != nil {
				nverr = fmt.Errorf("neutral panic: %v", r)
			}
		}()
		nverr = openapi3filter.ValidateResponse(context.Background(), nin)
	}()

	// does the verdict depend on the body at all? It does if the same validation rejects some other body
	// (none, garbage of the same length, the delivered prefix) while it accepts the intact one.
	dependsOnBody := func() bool {
		alts := [][]byte{{}, bytes.Repeat([]byte{'<'}, len(orig)+1)}
		if fa := p.Chunk.FaultAt; fa > 0 && fa < len(orig) {
			alts = append(alts, orig[:fa])
		}
		for _, alt := range alts {
			aw, err := LoadWorld(docBytes)
			if err != nil {
				continue
			}
			ain, err := mkInput(aw, io.NopCloser(bytes.NewReader(alt)))
			if err != nil {
				continue
			}
			rejected := false
			func() {
				defer func() {
					if r := recover(); r != nil {
						rejected = true
					}
				}()
				rejected = openapi3filter.ValidateResponse(context.Background(), ain) != nil
			}()
			if rejected {
				return true
			}
		}
		return false
	}

	zzsimrt.ResetMapOrder(s.MapSeed)
	defer zzsimrt.ResetMapOrder(0)
	e.party = "validator"
	st := simenv.NewStream("respbody", orig, p.Chunk, log, &e.party)
	var body io.ReadCloser = st
	switch {
	case p.Form == "nobody" && len(orig) == 0:
		body = http.NoBody
		res.Probe("resp-body-is-nobody")
	case p.Form == "seek" && len(orig) > 0 && p.Skip > 0:
		// what the caller has not read yet is the body: the prefix is none of the validator's business
		rd := bytes.NewReader(append(bytes.Repeat([]byte{'#'}, p.Skip), orig...))
		rd.Seek(int64(p.Skip), io.SeekStart)
		body = seekBody{rd}
		res.Probe("resp-body-seekable-at-offset")
	}
	in, err := mkInput(world, body)
	if err != nil {
		res.Inconcl = "route: " + err.Error()
		return
	}
	if s.ReuseInput && !again {
		// the caller keeps one input value and assigns the next response to it
		if e.sharedIn == nil {
			e.sharedIn = in
		} else {
			e.sharedIn.Status, e.sharedIn.Header, e.sharedIn.Body = in.Status, in.Header, in.Body
			in = e.sharedIn
			res.Probe("resp-input-reused")
		}
	}
	var verr error
	panicked := false
	func() {
		defer func() {
			if r := recover(); r != nil {
				panicked = true
				if nverr == nil || !strings.HasPrefix(nverr.Error(), "neutral panic") {
					violate("no-panic", "panic", fmt.Sprintf("ValidateResponse panicked over a streamed body but not over the same bytes in memory: %v", r))
				}
			}
		}()
		verr = openapi3filter.ValidateResponse(context.Background(), in)
	}()
	if panicked {
		res.Probe("resp-panic-both")
		return
	}
	log.Add("sim", "verdict", "", fmt.Sprint(verr == nil))
	consumed := st.Reads > 0
	if consumed {
		res.Probe("resp-body-consumed")
	} else {
		res.Probe("resp-early-return")
	}
	if st.Reads > 4*len(orig)+64 {
		violate("bounded-reads", "unbounded-reads", fmt.Sprintf("%d reads for %d bytes", st.Reads, len(orig)))
	}
	if st.FaultFired {
		res.Fault("respbody_" + p.Chunk.FaultKind)
		if verr == nil && nverr == nil && dependsOnBody() {
			// (asserted only where the verdict depends on the bytes: the same validation rejects some other body)
			violate("fault-accept", "accept-after-stream-error", fmt.Sprintf("ValidateResponse accepted although a Read it issued returned %q and the verdict depends on the body", p.Chunk.FaultKind))
		} else if verr == nil && nverr != nil {
			violate("fault-accept", "accept-after-stream-error", fmt.Sprintf("ValidateResponse accepted a response whose intact body it rejects, after a Read it issued returned %q", p.Chunk.FaultKind))
		}
		return
	}
	if st.CloseErrs > 0 {
		// every byte was delivered; whether an error from Close may turn into a rejection is not C08's
		// business, that the body is there afterwards is
		res.Fault("respbody_close_err")
	} else if (verr == nil) != (nverr == nil) {
		violate("verdict", "verdict-depends-on-delivery", fmt.Sprintf("streamed: %v; same bytes in memory: %v (chunk plan %+v)", verr, nverr, p.Chunk))
	}
	// the body stays readable afterwards, on every return path
	sig := func(k string) string {
		path := "early-return"
		if consumed {
			path = "consumed"
		}
		v := "accepted"
		if verr != nil {
			v = "rejected"
		}
		return fmt.Sprintf("%s:%s/%s", k, path, v)
	}
	readBack = func() {
		e.party = "next"
		if in.Body == nil {
			violate("readable", sig("body-nil"), fmt.Sprintf("input.Body is nil after ValidateResponse (status %d, verdict %v)", p.Status, verr))
			return
		}
		data, _, rerr := simenv.ReadAllLimited(in.Body, s.ReadBuf, 1<<16+8*len(orig))
		if st.FaultFired {
			res.Fault("respbody_" + p.Chunk.FaultKind + "_at_next_reader")
			return // validation never touched the stream; the next reader met the fault itself
		}
		if rerr != nil {
			violate("readable", sig("body-read-error"), fmt.Sprintf("reading the response body after validation failed: %v (got %d of %d bytes)", rerr, len(data), len(orig)))
		} else if !bytes.Equal(data, orig) {
			violate("readable", sig("body-altered"), fmt.Sprintf("response body after validation: %d bytes %q; original %d bytes %q", len(data), simfw.Trunc(string(data), 100), len(orig), simfw.Trunc(string(orig), 100)))
		}
		res.Probe("resp-readable-checked")
	}
	return readBack
}
