// Package stream is SIM-STREAM (DESIGN.md §3): request validation seen as a
// history over a one-shot body stream handed from party to party (client
// stream, authentication callbacks, validator, a second validation, the next
// handler), and response validation over a response body stream. It decides
// C13, and the stream-dependent clauses of C07 and C08.
package stream

import (
	"context"
	"encoding/json"
	"fmt"
	"reflect"
	"sort"
	"strings"

	"github.com/getkin/kin-openapi/openapi3"
	"github.com/getkin/kin-openapi/routers"
	"github.com/getkin/kin-openapi/routers/gorillamux"
)

// Node is the simulator's own description of a schema: it is rendered into
// the document the library loads, and it is what the reference model
// applyDefaults walks. The model never looks at the library's schema objects.
type Node struct {
	Type     string           `json:"type,omitempty"`
	Props    map[string]*Node `json:"props,omitempty"`
	Required []string         `json:"required,omitempty"`
	Default  any              `json:"default,omitempty"`
	Enum     []any            `json:"enum,omitempty"`
	Items    *Node            `json:"items,omitempty"`
	OneOf    []*Node          `json:"one_of,omitempty"`
	AnyOf    []*Node          `json:"any_of,omitempty"`
	AllOf    []*Node          `json:"all_of,omitempty"`
	Min      *float64         `json:"min,omitempty"`
	Kind     string           `json:"kind,omitempty"` // for oneOf/anyOf branches: the value of property "kind" that selects this branch
	NoExtra  bool             `json:"no_extra,omitempty"`
}

func (n *Node) Render() map[string]any {
	m := map[string]any{}
	if n.Type != "" {
		m["type"] = n.Type
	}
	if len(n.Props) > 0 {
		p := map[string]any{}
		for k, v := range n.Props {
			p[k] = v.Render()
		}
		m["properties"] = p
	}
	if len(n.Required) > 0 {
		m["required"] = n.Required
	}
	if n.Default != nil {
		m["default"] = n.Default
	}
	if len(n.Enum) > 0 {
		m["enum"] = n.Enum
	}
	if n.Items != nil {
		m["items"] = n.Items.Render()
	}
	list := func(xs []*Node) []any {
		var out []any
		for _, x := range xs {
			out = append(out, x.Render())
		}
		return out
	}
	if len(n.OneOf) > 0 {
		m["oneOf"] = list(n.OneOf)
	}
	if len(n.AnyOf) > 0 {
		m["anyOf"] = list(n.AnyOf)
	}
	if len(n.AllOf) > 0 {
		m["allOf"] = list(n.AllOf)
	}
	if n.Min != nil {
		m["minimum"] = *n.Min
	}
	if n.NoExtra {
		m["additionalProperties"] = false
	}
	return m
}

func deepCopy(v any) any {
	b, _ := json.Marshal(v)
	var out any
	json.Unmarshal(b, &out)
	return out
}

// ApplyDefaults is the reference model for C13's body clause: every absent
// property that has a schema default receives it; nothing else changes;
// defaults of a oneOf/anyOf branch apply only if that branch is the one the
// value selects (branches of the workload are mutually exclusive by "kind").
func ApplyDefaults(n *Node, v any) any {
	if n == nil {
		return v
	}
	pick := func(branches []*Node) {
		m, ok := v.(map[string]any)
		if !ok {
			// an array-valued branch is selected by the kind of its elements
			if arr, isArr := v.([]any); isArr && len(arr) > 0 {
				m, ok = arr[0].(map[string]any)
			}
			if !ok {
				return
			}
		}
		k, _ := m["kind"].(string)
		for _, b := range branches {
			if b.Kind == k {
				v = ApplyDefaults(b, v)
				return
			}
		}
	}
	if len(n.OneOf) > 0 {
		pick(n.OneOf)
	}
	if len(n.AnyOf) > 0 {
		pick(n.AnyOf)
	}
	for _, a := range n.AllOf {
		v = ApplyDefaults(a, v)
	}
	switch x := v.(type) {
	case map[string]any:
		names := make([]string, 0, len(n.Props))
		for k := range n.Props {
			names = append(names, k)
		}
		sort.Strings(names)
		for _, k := range names {
			p := n.Props[k]
			if _, present := x[k]; !present {
				if p.Default != nil {
					x[k] = ApplyDefaults(p, deepCopy(p.Default))
				}
				continue
			}
			x[k] = ApplyDefaults(p, x[k])
		}
	case []any:
		if n.Items != nil {
			for i := range x {
				x[i] = ApplyDefaults(n.Items, x[i])
			}
		}
	}
	return v
}

// ParamDecl is a parameter of the workload with a default.
type ParamDecl struct {
	Name     string `json:"name"`
	In       string `json:"in"` // query | header | cookie
	Type     string `json:"type"`
	Default  any    `json:"default,omitempty"`
	Explode  string `json:"explode,omitempty"` // "" (unset) | true | false   (arrays in query)
	Enum     []any  `json:"enum,omitempty"`
	Required bool   `json:"required,omitempty"`
	Content  bool   `json:"content,omitempty"` // declared through `content: application/json` instead of `schema` (value is JSON text)
}

// SDoc selects one member of the document family.
type SDoc struct {
	Method     string      `json:"method,omitempty"`  // request leg: the operation's method, "" = post | put | patch | delete | options
	SecOp      string      `json:"sec_op,omitempty"`  // operation-level requirement shape: "" (absent) | single | or | and | empty_req | empty_list | or3
	SecDoc     string      `json:"sec_doc,omitempty"` // document-level requirement shape, same vocabulary
	Params     []ParamDecl `json:"params,omitempty"`
	PathParams []ParamDecl `json:"path_params,omitempty"` // declared on the path item; one of the same name and location in Params overrides it
	BodyKind   string      `json:"body_kind,omitempty"`   // "" | json | form | multipart | text
	BodyReq    bool        `json:"body_req,omitempty"`
	Body       *Node       `json:"body,omitempty"` // schema of the JSON/form/multipart body
	Resp       RespDoc     `json:"resp,omitempty"`
}

// RespDoc describes the responses of the operation (response leg).
type RespDoc struct {
	Entries []RespEntry `json:"entries,omitempty"`
}

type RespEntry struct {
	Key       string `json:"key"`                  // "200" | "2XX" | "default" ...
	CT        string `json:"ct,omitempty"`         // "" = no content
	NoSchema  bool   `json:"no_schema,omitempty"`  // content entry without schema
	ReqHeader bool   `json:"req_header,omitempty"` // required header X-Rate: integer
}

func secReqs(shape string) []any {
	switch shape {
	case "single":
		return []any{map[string]any{"a": []any{}}}
	case "or":
		return []any{map[string]any{"a": []any{}}, map[string]any{"b": []any{}}}
	case "or3":
		return []any{map[string]any{"a": []any{}}, map[string]any{"b": []any{"read"}}, map[string]any{"x-c": []any{}}}
	case "and":
		return []any{map[string]any{"a": []any{}, "b": []any{"read", "write"}}}
	case "and_or":
		return []any{map[string]any{"a": []any{}, "b": []any{}}, map[string]any{"x-c": []any{}}}
	case "empty_req":
		return []any{map[string]any{}}
	case "or_empty":
		return []any{map[string]any{"a": []any{}}, map[string]any{}}
	case "empty_list":
		return []any{}
	case "scopes_or": // the same scheme in two alternatives with different scopes
		return []any{map[string]any{"b": []any{"write"}}, map[string]any{"b": []any{"read"}}}
	case "scopes_or_rev":
		return []any{map[string]any{"b": []any{"read"}}, map[string]any{"b": []any{"read", "write"}}}
	case "scopes_mix":
		return []any{map[string]any{"b": []any{"read"}, "a": []any{}}, map[string]any{"b": []any{"write"}}}
	case "undecl_or": // an alternative naming a scheme the document does not declare, then a declared one
		return []any{map[string]any{"zz": []any{}}, map[string]any{"a": []any{}}}
	case "undecl_and":
		return []any{map[string]any{"a": []any{}, "zz": []any{}}, map[string]any{"x-c": []any{}}}
	case "undecl_only":
		return []any{map[string]any{"zz": []any{}}}
	}
	return nil
}

// SecurityModel is the reference model of C07's security clause: validation
// of the security part succeeds exactly when the effective requirement list
// (the operation's, or the document's when the operation declares none) is
// empty or has a requirement all of whose schemes are declared and accepted by
// the callback; an empty requirement needs no authentication.
func SecurityModel(d SDoc, accepted func(scheme string, scopes []string) bool) bool {
	shape := d.SecOp
	if shape == "nil_slice_ptr" {
		return true // the operation declares its own, empty, list
	}
	if shape == "" {
		shape = d.SecDoc
	}
	if shape == "" {
		return true
	}
	reqs := secReqs(shape)
	if len(reqs) == 0 {
		return true
	}
	declared := map[string]bool{"a": true, "b": true, "x-c": true}
	for _, r := range reqs {
		ok := true
		for name, sc := range r.(map[string]any) {
			var scopes []string
			for _, x := range sc.([]any) {
				scopes = append(scopes, fmt.Sprint(x))
			}
			if !declared[name] || !accepted(name, scopes) {
				ok = false
			}
		}
		if ok {
			return true
		}
	}
	return false
}

var respSchema = map[string]any{
	"type": "object", "required": []string{"id"},
	"properties": map[string]any{"id": map[string]any{"type": "integer"}, "tag": map[string]any{"type": "string"}},
}

// Sibling is another member of the document family with the same operation,
// parameter names, locations and body property names as d, and different
// default values everywhere: what a process that serves two APIs holds side by
// side. Anything the library remembers across documents under a name shows when
// d is used after its sibling.
func (d SDoc) Sibling() SDoc {
	var c SDoc
	b, _ := json.Marshal(d)
	json.Unmarshal(b, &c)
	var other func(v any, enum []any) any
	other = func(v any, enum []any) any {
		if len(enum) > 0 {
			for _, e := range enum {
				if !reflect.DeepEqual(e, v) {
					return e
				}
			}
			return v
		}
		switch x := v.(type) {
		case string:
			return x + "-sib"
		case float64:
			return x + 1
		case bool:
			return !x
		case []any:
			out := make([]any, 0, len(x)+1)
			for _, e := range x {
				out = append(out, other(e, nil))
			}
			return out
		case map[string]any:
			out := map[string]any{}
			for k, e := range x {
				out[k] = other(e, nil)
			}
			return out
		}
		return v
	}
	for i := range c.Params {
		if c.Params[i].Default != nil {
			c.Params[i].Default = other(c.Params[i].Default, c.Params[i].Enum)
		}
	}
	for i := range c.PathParams {
		if c.PathParams[i].Default != nil {
			c.PathParams[i].Default = other(c.PathParams[i].Default, c.PathParams[i].Enum)
		}
	}
	var walk func(n *Node)
	walk = func(n *Node) {
		if n == nil {
			return
		}
		if n.Default != nil {
			n.Default = other(n.Default, n.Enum)
		}
		for _, p := range n.Props {
			walk(p)
		}
		walk(n.Items)
		for _, x := range n.OneOf {
			walk(x)
		}
		for _, x := range n.AnyOf {
			walk(x)
		}
		for _, x := range n.AllOf {
			walk(x)
		}
	}
	walk(c.Body)
	return c
}

// OpKey is the path item member the operation sits under.
func (d SDoc) OpKey() string {
	switch d.Method {
	case "put", "patch", "delete", "options":
		return d.Method
	}
	return "post"
}

// HTTPMethod is the request method that reaches the operation.
func (d SDoc) HTTPMethod() string { return strings.ToUpper(d.OpKey()) }

// JSON renders the document.
func (d SDoc) JSON() []byte {
	op := map[string]any{"operationId": "op"}
	var params []any
	for _, p := range d.Params {
		sch := map[string]any{"type": p.Type}
		if p.Type == "array" {
			sch["items"] = map[string]any{"type": "string"}
			if arr, ok := p.Default.([]any); ok && len(arr) > 0 {
				if _, num := arr[0].(float64); num {
					sch["items"] = map[string]any{"type": "integer"}
				}
			}
		}
		if p.Default != nil {
			sch["default"] = p.Default
		}
		if len(p.Enum) > 0 {
			if p.Type == "array" {
				sch["items"].(map[string]any)["enum"] = p.Enum
			} else {
				sch["enum"] = p.Enum
			}
		}
		pm := map[string]any{"name": p.Name, "in": p.In, "schema": sch}
		if p.Content {
			if p.Type == "object" {
				sch["properties"] = map[string]any{"state": map[string]any{"type": "string"}}
			}
			pm = map[string]any{"name": p.Name, "in": p.In, "content": map[string]any{"application/json": map[string]any{"schema": sch}}}
		}
		if p.Required {
			pm["required"] = true
		}
		switch p.Explode {
		case "true":
			pm["explode"] = true
		case "false":
			pm["explode"] = false
		}
		params = append(params, pm)
	}
	if len(params) > 0 {
		op["parameters"] = params
	}
	var pathLevel []any
	for _, p := range d.PathParams {
		sch := map[string]any{"type": p.Type}
		if p.Default != nil {
			sch["default"] = p.Default
		}
		if len(p.Enum) > 0 {
			sch["enum"] = p.Enum
		}
		pathLevel = append(pathLevel, map[string]any{"name": p.Name, "in": p.In, "schema": sch})
	}
	if d.SecOp != "" && d.SecOp != "nil_slice_ptr" {
		op["security"] = secReqs(d.SecOp)
	}
	if d.BodyKind != "" {
		var content map[string]any
		switch d.BodyKind {
		case "json":
			content = map[string]any{"application/json": map[string]any{"schema": d.Body.Render()}}
		case "form":
			content = map[string]any{"application/x-www-form-urlencoded": map[string]any{"schema": d.Body.Render()}}
		case "multipart":
			content = map[string]any{"multipart/form-data": map[string]any{"schema": d.Body.Render()}}
		case "text":
			content = map[string]any{"text/plain": map[string]any{"schema": map[string]any{"type": "string", "minLength": 1}}}
		}
		rb := map[string]any{"content": content}
		if d.BodyReq {
			rb["required"] = true
		}
		op["requestBody"] = rb
	}
	responses := map[string]any{}
	for _, e := range d.Resp.Entries {
		r := map[string]any{"description": "r"}
		if e.CT != "" {
			mt := map[string]any{}
			if !e.NoSchema {
				if e.CT == "text/plain" {
					mt["schema"] = map[string]any{"type": "string", "minLength": 2}
				} else {
					mt["schema"] = respSchema
				}
			}
			r["content"] = map[string]any{e.CT: mt}
		}
		if e.ReqHeader {
			r["headers"] = map[string]any{"X-Rate": map[string]any{"required": true, "schema": map[string]any{"type": "integer"}}}
		}
		responses[e.Key] = r
	}
	if len(responses) == 0 {
		responses["200"] = map[string]any{"description": "ok"}
	}
	op["responses"] = responses
	doc := map[string]any{
		"openapi": "3.0.3",
		"info":    map[string]any{"title": "sim-stream", "version": "1"},
		"paths":   map[string]any{"/thing": pathItem(d.OpKey(), op, responses, pathLevel)},
		"components": map[string]any{"securitySchemes": map[string]any{
			"a":   map[string]any{"type": "apiKey", "in": "header", "name": "X-A"},
			"b":   map[string]any{"type": "oauth2", "flows": map[string]any{"implicit": map[string]any{"authorizationUrl": "https://sim.test/auth", "scopes": map[string]any{"read": "r", "write": "w"}}}},
			"x-c": map[string]any{"type": "http", "scheme": "basic"}, // (a legal scheme name that looks like an extension key)
		}},
	}
	if d.SecDoc != "" {
		doc["security"] = secReqs(d.SecDoc)
	}
	b, err := json.Marshal(doc)
	if err != nil {
		panic(err)
	}
	return b
}

func pathItem(key string, op, responses map[string]any, pathLevel []any) map[string]any {
	pi := map[string]any{key: op, "head": map[string]any{"responses": responses}}
	if len(pathLevel) > 0 {
		pi["parameters"] = pathLevel
	}
	return pi
}

// EffectiveParams are the parameters in effect for the operation: its own plus
// the path-level ones not overridden by one of the same location and name.
func (d SDoc) EffectiveParams() []ParamDecl {
	out := append([]ParamDecl{}, d.Params...)
	for _, pp := range d.PathParams {
		overridden := false
		for _, p := range d.Params {
			if p.In == pp.In && p.Name == pp.Name {
				overridden = true
			}
		}
		if !overridden {
			out = append(out, pp)
		}
	}
	return out
}

type World struct {
	Doc    *openapi3.T
	Router routers.Router
}

func LoadWorld(data []byte) (*World, error) {
	loader := openapi3.NewLoader()
	doc, err := loader.LoadFromData(data)
	if err != nil {
		return nil, fmt.Errorf("load: %w", err)
	}
	if err := doc.Validate(context.Background()); err != nil {
		return nil, fmt.Errorf("validate: %w", err)
	}
	r, err := gorillamux.NewRouter(doc)
	if err != nil {
		return nil, fmt.Errorf("router: %w", err)
	}
	return &World{Doc: doc, Router: r}, nil
}

// AllowedAuthCalls lists the (scheme, scopes) pairs of the requirement list in
// effect: the only things the callback may be asked about.
func AllowedAuthCalls(d SDoc) [][2]string {
	shape := d.SecOp
	if shape == "nil_slice_ptr" {
		return nil
	}
	if shape == "" {
		shape = d.SecDoc
	}
	var out [][2]string
	for _, r := range secReqs(shape) {
		for name, sc := range r.(map[string]any) {
			var scopes []string
			for _, x := range sc.([]any) {
				scopes = append(scopes, fmt.Sprint(x))
			}
			out = append(out, [2]string{name, strings.Join(scopes, ",")})
		}
	}
	return out
}

// PatchSecurity gives the operation the security declaration a document built in
// Go may have and a parsed one cannot: a non-nil pointer to a nil list. The
// operation then declares a list of its own (an empty one), so the document's
// requirements do not apply.
func (w *World) PatchSecurity(shape string) {
	if shape != "nil_slice_ptr" {
		return
	}
	if pi := w.Doc.Paths.Value("/thing"); pi != nil {
		for m, op := range pi.Operations() {
			if m != "HEAD" && op != nil {
				op.Security = new(openapi3.SecurityRequirements)
			}
		}
	}
}
