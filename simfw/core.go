package simfw

import (
	"crypto/sha256"
	"encoding/hex"
	"encoding/json"
	"fmt"
	"sort"
	"strings"
	"sync"
)

// Event is one entry of a run's history. Seq is the simulator's global event
// counter: the only notion of time a run has.
type Event struct {
	Seq   int    `json:"seq"`
	Actor string `json:"actor"`
	Op    string `json:"op"`
	Arg   string `json:"arg,omitempty"`
	Res   string `json:"res,omitempty"`
}

// Log records the history of one run. Logging never draws from a PRNG and
// never reads a clock.
type Log struct {
	Events []Event
	Keep   bool // keep full events (replay / selftest); otherwise only hash+count
	n      int
	h      [32]byte
	mu     sync.Mutex
}

func (l *Log) Add(actor, op, arg, res string) int {
	l.mu.Lock() // (sequential simulators only; a library that works in parallel may log from several goroutines)
	defer l.mu.Unlock()
	l.n++
	e := Event{Seq: l.n, Actor: actor, Op: op, Arg: arg, Res: res}
	if l.Keep {
		l.Events = append(l.Events, e)
	}
	s := sha256.New()
	s.Write(l.h[:])
	fmt.Fprintf(s, "%d|%s|%s|%s|%s", e.Seq, actor, op, arg, res)
	copy(l.h[:], s.Sum(nil))
	return l.n
}

func (l *Log) Len() int     { return l.n }
func (l *Log) Hash() string { return hex.EncodeToString(l.h[:8]) }

// Violation is one failed oracle. Sig is a structural signature: it names the
// oracle and the shape of the failing run (never seed-dependent data such as
// markers), so that known findings can be matched and minimisation can insist
// on "the same violation class".
type Violation struct {
	Property string `json:"property"`
	Oracle   string `json:"oracle"`
	Sig      string `json:"sig"`
	Detail   string `json:"detail"`
}

// Result of executing one run spec.
type Result struct {
	Violations []Violation    `json:"violations,omitempty"`
	Probes     map[string]int `json:"probes,omitempty"` // reach probes hit in this run
	Faults     map[string]int `json:"faults,omitempty"` // fault kinds that actually fired
	Steps      int            `json:"steps"`            // events (the run's simulated time)
	Class      string         `json:"class"`            // distinctness key of the run
	Nontrivial bool           `json:"nontrivial"`
	LogHash    string         `json:"log_hash"`
	Inconcl    string         `json:"inconclusive,omitempty"`
	Events     []Event        `json:"events,omitempty"`
	// Cover lists hashes of coverage items reached by this run (what an item is,
	// the simulator says in its rule; SIM-CONC: (from-site, to-site) pairs of
	// context switches inside library code). The driver counts distinct items.
	Cover []uint64 `json:"cover,omitempty"`
	// Respec, when set on a violating run, is an equivalent spec in more
	// explicit form (SIM-CONC: the seeded scheduling policy replaced by the
	// recorded switch list) that the driver prefers for minimisation.
	Respec json.RawMessage `json:"respec,omitempty"`
}

func (r *Result) Probe(name string) {
	if r.Probes == nil {
		r.Probes = map[string]int{}
	}
	r.Probes[name]++
}

func (r *Result) Fault(name string) {
	if r.Faults == nil {
		r.Faults = map[string]int{}
	}
	r.Faults[name]++
}

func (r *Result) Violate(prop, oracle, sig, detail string) {
	r.Violations = append(r.Violations, Violation{Property: prop, Oracle: oracle, Sig: sig, Detail: detail})
}

// Sim is one simulator. Gen expands a run seed into an explicit run spec
// (JSON); Run executes a run spec. Run must be total over every JSON value the
// shrinker can derive from a generated spec (it clamps, wraps and ignores
// rather than panics), and must be a pure function of the spec and the code.
type Sim interface {
	Name() string
	Properties() []string
	// Gen derives the run spec for one run. prop biases the workload towards
	// the property being checked (a simulator may serve several).
	Gen(seed uint64, prop string, tier string) any
	// Run executes a spec (as produced by Gen, after a JSON round trip).
	Run(spec json.RawMessage, prop string, keepEvents bool) Result
	// Components lists what ran real code and what was a stub.
	Components() (real []string, stub []string)
	// Assumptions is the trusted base of the simulator's models.
	Assumptions() []string
}

var registry = map[string]Sim{}

func Register(s Sim) { registry[s.Name()] = s }
func Lookup(name string) Sim {
	return registry[name]
}
func Names() []string {
	var n []string
	for k := range registry {
		n = append(n, k)
	}
	sort.Strings(n)
	return n
}

// Trunc shortens s for log arguments.
func Trunc(s string, n int) string {
	if len(s) <= n {
		return s
	}
	return s[:n] + fmt.Sprintf("…(%d)", len(s))
}

// ClassKey builds a distinctness key from parts.
func ClassKey(parts ...any) string {
	var sb strings.Builder
	for i, p := range parts {
		if i > 0 {
			sb.WriteByte('/')
		}
		fmt.Fprint(&sb, p)
	}
	return sb.String()
}

// Clamp keeps shrunken specs inside bounds.
func Clamp(v, lo, hi int) int {
	if v < lo {
		return lo
	}
	if v > hi {
		return hi
	}
	return v
}

// Idx wraps an index into [0,n).
func Idx(v, n int) int {
	if n <= 0 {
		return 0
	}
	v %= n
	if v < 0 {
		v += n
	}
	return v
}
