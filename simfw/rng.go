// Package simfw holds what every simulator shares: the seeded PRNG from which
// run specs are derived, the event log, the result/violation types and the
// registry the simbin executable dispatches on.
//
// Nothing here is consulted while a run spec executes except the event log:
// execution is a pure function of (run spec, code under test).
package simfw

// RNG is splitmix64. It is private to the simulator so that no library
// (math/rand, hash seeds) can perturb or be perturbed by it, and so that one
// integer decides every generated choice on every Go version.
type RNG struct{ s uint64 }

func NewRNG(seed uint64) *RNG { return &RNG{s: seed} }

func (r *RNG) Uint64() uint64 {
	r.s += 0x9e3779b97f4a7c15
	z := r.s
	z = (z ^ (z >> 30)) * 0xbf58476d1ce4e5b9
	z = (z ^ (z >> 27)) * 0x94d049bb133111eb
	return z ^ (z >> 31)
}

// Derive returns the seed of the i-th run of a batch seeded with base.
func Derive(base uint64, i uint64) uint64 {
	r := RNG{s: base ^ (i+1)*0xd1342543de82ef95}
	r.Uint64()
	return r.Uint64()
}

func (r *RNG) Intn(n int) int {
	if n <= 0 {
		return 0
	}
	return int(r.Uint64() % uint64(n))
}

// Range returns a value in [lo, hi].
func (r *RNG) Range(lo, hi int) int {
	if hi <= lo {
		return lo
	}
	return lo + r.Intn(hi-lo+1)
}

func (r *RNG) Bool() bool { return r.Uint64()&1 == 1 }

// Chance is true with probability num/den.
func (r *RNG) Chance(num, den int) bool { return r.Intn(den) < num }

func (r *RNG) Float() float64 { return float64(r.Uint64()>>11) / (1 << 53) }

func Pick[T any](r *RNG, xs []T) T { return xs[r.Intn(len(xs))] }

func (r *RNG) Perm(n int) []int {
	p := make([]int, n)
	for i := range p {
		p[i] = i
	}
	for i := n - 1; i > 0; i-- {
		j := r.Intn(i + 1)
		p[i], p[j] = p[j], p[i]
	}
	return p
}
